"""Boundary-heavy realisable modules and single-rule violations of the physical
layout / attribute rules (C14)."""

import random

RESERVED_SAMPLE = None


def reserved_words(repo):
    global RESERVED_SAMPLE
    if RESERVED_SAMPLE is None:
        import os

        words = []
        with open(os.path.join(repo, "compiler", "front_end", "reserved_words")) as f:
            for line in f:
                w = line.strip()
                if w and not w.startswith("#") and not w.startswith("--"):
                    words.append(w)
        RESERVED_SAMPLE = words
    return RESERVED_SAMPLE


class Base(object):
    """A realisable module in parts; render() gives text and line spans per part."""

    def __init__(self):
        self.header = []  # module-level lines
        self.types = []  # list of (tag, [lines])  top-level types before Foo
        self.fields = []  # list of (tag, [lines])  fields of struct Foo (2-space indented)
        self.foo_attrs = []
        self.tail = []  # (tag, [lines]) after Foo

    def render(self):
        L = []
        spans = {}

        def put(tag, lines):
            a = len(L) + 1
            L.extend(lines)
            if tag:
                spans[tag] = (a, len(L))

        put("header", self.header)
        for tag, lines in self.types:
            put(tag, lines)
        put("Foo", ["struct Foo:"] + self.foo_attrs)
        for tag, lines in self.fields:
            put(tag, lines)
        for tag, lines in self.tail:
            put(tag, lines)
        return "\n".join(L) + "\n", spans


def bcd_widths():
    return list(range(1, 65))


def gen_enum(rnd, name, kind=None):
    """Returns (lines, bits needed as field width, signed)."""
    kind = kind or rnd.choice(["small", "small", "u64max", "i64min", "maxbits", "signed-explicit", "neg-small", "dup"])
    L = ["enum %s:" % name]
    if kind == "small":
        L += ["  AA = 0", "  BB = 1", "  CC = %d" % rnd.choice([2, 7, 200, 255])]
        return L, (8, 64), False
    if kind == "u64max":
        L += ["  AA = 0", "  BIG = 18446744073709551615", "  MID = 9223372036854775808"]
        return L, (64, 64), False
    if kind == "i64min":
        L += ["  NEG = -9223372036854775808", "  POS = 9223372036854775807", "  ZZ = 0"]
        return L, (64, 64), True
    if kind == "maxbits":
        mb = rnd.choice([1, 2, 7, 8, 9, 16, 31, 32, 33, 63, 64])
        top = 2**mb - 1
        L += ["  [maximum_bits: %d]" % mb, "  AA = 0", "  TOP = %d" % top]
        return L, (mb, mb), False
    if kind == "signed-explicit":
        mb = rnd.choice([2, 8, 16, 32, 64])
        L += ["  [maximum_bits: %d]" % mb, "  [is_signed: true]", "  LO = %d" % (-(2 ** (mb - 1))), "  HI = %d" % (2 ** (mb - 1) - 1)]
        return L, (mb, mb), True
    if kind == "neg-small":
        L += ["  MINUS = -1", "  ZERO = 0", "  PLUS = 1"]
        return L, (8, 64), True
    L += ["  AA = 1", "  ALSO_AA = 1", "  BB = 0x10"]
    return L, (8, 64), False


def scalar_decl(rnd, offset, in_bits, enums):
    """One valid scalar field; returns (lines, size in units)."""
    kinds = ["UInt", "Int", "Bcd", "UInt", "Int"] + (["Flag"] if in_bits else ["Float"]) + (["enum"] if enums else [])
    k = rnd.choice(kinds)
    unit = 1 if in_bits else 8
    if in_bits:
        w = rnd.choice([1, 2, 3, 7, 8, 9, 15, 16, 17, 31, 32, 33, 63, 64])
        if k == "Int" and w == 1 and rnd.random() < 0.5:
            w = 2
    else:
        w = 8 * rnd.choice([1, 2, 3, 4, 5, 6, 7, 8])
    if k == "Flag":
        w = 1
    if k == "Float":
        w = rnd.choice([32, 64])
    tname = k
    if k == "enum":
        en, (lo, hi) = rnd.choice(enums)
        if in_bits:
            w = min(hi, max(w, lo))
        else:
            w = 8 * ((lo + 7) // 8)
            if w > hi:
                # this enum cannot live in a whole number of bytes: fall back to UInt
                k = "UInt"
            elif rnd.random() < 0.5 and hi == 64:
                w = rnd.choice([x for x in (8, 16, 24, 32, 40, 48, 56, 64) if x >= w])
        tname = en if k == "enum" else "UInt"
    size = w // unit
    explicit = rnd.random() < 0.4 and k not in ("Flag",)
    name = "f%d" % offset
    line = "  %d [+%d]  %s%s  %s" % (offset, size, tname, (":%d" % w) if explicit else "", name)
    lines = [line]
    if not in_bits and size > 1 and rnd.random() < 0.3:
        lines.append('    [byte_order: "%s"]' % rnd.choice(["LittleEndian", "BigEndian"]))
    elif not in_bits and size == 1 and rnd.random() < 0.1:
        lines.append('    [byte_order: "Null"]')
    if rnd.random() < 0.1 and k in ("UInt", "Int"):
        lines.append("    [requires: this != 3]")
    if rnd.random() < 0.1:
        lines.append('    [text_output: "%s"]' % rnd.choice(["Skip", "Emit"]))
    return lines, size


def gen_bits_type(rnd, name, enums, total=None):
    total = total or rnd.choice([8, 16, 24, 32, 40, 48, 56, 64])
    L = ["bits %s:" % name]
    pos = 0
    while pos < total:
        lines, size = scalar_decl(rnd, pos, True, enums)
        if pos + size > total:
            size = total - pos
            lines = ["  %d [+%d]  UInt  f%d" % (pos, size, pos)]
        L += lines
        pos += size
    return L, total


def build_base(rnd):
    b = Base()
    default_bo = rnd.random() < 0.75
    if default_bo:
        b.header.append('[$default byte_order: "%s"]' % rnd.choice(["LittleEndian", "BigEndian"]))
    if rnd.random() < 0.5:
        b.header.append('[(cpp) namespace: "%s"]' % rnd.choice(["a::b", "::x", "ns"]))
    enums = []
    for i in range(rnd.choice([1, 2, 3])):
        name = "En%dx" % i
        lines, bits, signed = gen_enum(rnd, name)
        b.types.append((name, lines))
        enums.append((name, bits))
    bname = "Bi0x"
    blines, btotal = gen_bits_type(rnd, bname, enums)
    b.types.append((bname, blines))
    b.types.append(("Sub", ["struct Sub:", "  0 [+1]  UInt  q", "  1 [+2]  UInt  r", '    [byte_order: "BigEndian"]']))
    if not default_bo:
        b.foo_attrs.append('  [$default byte_order: "%s"]' % rnd.choice(["LittleEndian", "BigEndian"]))
    pos = 0
    for i in range(rnd.randrange(2, 8)):
        k = rnd.random()
        tag = "fld%d" % i
        if k < 0.5:
            lines, size = scalar_decl(rnd, pos, False, enums)
        elif k < 0.62:
            lines, size = ["  %d [+%d]  %s  b%d" % (pos, btotal // 8, bname, pos)], btotal // 8
        elif k < 0.72:
            n = rnd.choice([1, 2, 3])
            lines, size = ["  %d [+%d]  Sub[%d]  s%d" % (pos, 3 * n, n, pos)], 3 * n
        elif k < 0.86:
            eb = rnd.choice([1, 2, 4, 8])
            n = rnd.choice([1, 2, 5])
            form = rnd.choice(["%d", ""])
            dim = ("[%d]" % n) if form else "[]"
            if rnd.random() < 0.25:
                lines, size = ["  %d [+%d]  UInt:%d[%d][%d]  a%d" % (pos, eb * n * n, eb * 8, n, n, pos)], eb * n * n
            else:
                lines, size = ["  %d [+%d]  %s:%d%s  a%d" % (pos, eb * n, rnd.choice(["UInt", "Int"]), eb * 8, dim, pos)], eb * n
        else:
            total = rnd.choice([8, 16, 32, 64])
            inner, _ = gen_bits_type(rnd, "x", enums, total)
            lines = ["  %d [+%d]  bits:" % (pos, total // 8)] + ["  " + l.replace("  f", "  g%d_" % pos, 1) if l.startswith("  ") and "[+" in l else "  " + l for l in inner[1:]]
            size = total // 8
        b.fields.append((tag, lines))
        pos += size
    # one-byte elements need no byte order, whether the width is written (UInt:8[]) or comes from a named
    # 8-bit bits type; also with no $default byte_order anywhere in scope
    if rnd.random() < 0.5:
        nm = "By8x"
        blines8, _ = gen_bits_type(rnd, nm, enums, 8)
        b.types.append((nm, blines8))
        n = rnd.choice([1, 2, 4])
        form = rnd.choice(["%s[%d]" % (nm, n), "%s[]" % nm, "%s" % nm])
        size = n if "[" in form else 1
        b.fields.append(("bytearr", ["  %d [+%d]  %s  ba%d" % (pos, size, form, pos)]))
        pos += size
        if not default_bo:
            # a structure with NO byte order in scope at all: everything in it is one byte wide
            n2 = rnd.choice([2, 3, 4])
            b.types.append(("NoBo", ["struct NoBo:", "  0 [+%d]  %s[%s]  many" % (n2, nm, rnd.choice(["", str(n2)])), "  %d [+1]  %s  one" % (n2, nm), "  %d [+2]  UInt:8[2]  raw" % (n2 + 1), "  %d [+1]  UInt  last" % (n2 + 3)]))
    # fixed-size types in fields whose size is only known at run time: accepted whenever the field CAN be
    # large enough (upper bound of the size >= size of the type); the boundary is "exactly as large"
    if rnd.random() < 0.5:
        lines = ["  %d [+1]  bits:" % pos, "    0 [+2]  UInt  dsz2", "    2 [+1]  Flag  dfl", "    3 [+3]  UInt  dsz3"]
        b.fields.append(("dynsel", lines))
        pos += 1
        k = rnd.random()
        if k < 0.35:
            lines = ["  %d [+dsz2]  Sub  dyn_a" % pos]  # dsz2 <= 3 == size of Sub
        elif k < 0.6:
            lines = ["  %d [+(dfl ? 3 : 0)]  Sub  dyn_b" % pos]
        else:
            lines = ["  %d [+dsz3]  Sub  dyn_c" % pos]  # dsz3 <= 7 > 3
        b.fields.append(("dynfield", lines))
        pos += 8
    return b, {"enums": enums, "bits": (bname, btotal), "end": pos, "default_bo": default_bo}


# ---------------------------------------------------------------------------
# violations: each returns (tag of the offending part) after editing the base
# ---------------------------------------------------------------------------

def _add_field(b, info, lines, tag="bad"):
    pos = info["end"]
    b.fields.append((tag, [l.replace("@", str(pos)) for l in lines]))
    return tag


def violations(repo):
    V = []

    def v(name):
        def deco(fn):
            V.append((name, fn))
            return fn

        return deco

    for kind, w in [("UInt", 0), ("UInt", 65), ("Int", 0), ("Int", 65), ("Bcd", 0), ("Bcd", 65), ("Flag", 2), ("Flag", 0), ("Float", 16), ("Float", 33), ("Float", 8)]:
        def mk(kind=kind, w=w):
            def fn(rnd, b, info):
                b.types.append(("badbits", ["bits BadBits:", "  0 [+8]  UInt  ok", "  8 [+%d]  %s  bad" % (w, kind)]))
                return "badbits"
            return fn
        V.append(("%s-of-%d-bits" % (kind, w), mk()))
    for kind, nbytes in [("UInt", 9), ("Int", 9), ("Float", 2), ("Float", 16), ("Float", 3), ("Bcd", 9), ("UInt", 0)]:
        def mk2(kind=kind, nbytes=nbytes):
            def fn(rnd, b, info):
                return _add_field(b, info, ["  @ [+%d]  %s  bad" % (nbytes, kind)])
            return fn
        V.append(("%s-in-%d-byte-field" % (kind, nbytes), mk2()))

    @v("explicit-size-differs-from-field")
    def _(rnd, b, info):
        return _add_field(b, info, ["  @ [+2]  UInt:%d  bad" % rnd.choice([8, 24, 32, 15])])

    @v("struct-type-smaller-than-field")
    def _(rnd, b, info):
        return _add_field(b, info, ["  @ [+%d]  Sub  bad" % rnd.choice([2, 4, 8])])

    @v("bits-type-in-dynamically-sized-field")
    def _(rnd, b, info):
        # a bits type is read through a fixed-width block: like an enum it needs a statically sized field
        lines = ["  @ [+1]  UInt  dynsz", "  @ [+dynsz]  %s  bad" % info["bits"][0]]
        return _add_field(b, info, lines)

    @v("bits-type-size-differs-from-field")
    def _(rnd, b, info):
        return _add_field(b, info, ["  @ [+%d]  %s  bad" % (info["bits"][1] // 8 + 1, info["bits"][0])])

    @v("enum-field-wider-than-maximum_bits")
    def _(rnd, b, info):
        b.types.append(("NarrowEn", ["enum NarrowEn:", "  [maximum_bits: 8]", "  AA = 1"]))
        return _add_field(b, info, ["  @ [+2]  NarrowEn  bad"])

    @v("enum-value-exceeds-maximum_bits")
    def _(rnd, b, info):
        mb = rnd.choice([1, 8, 16, 63])
        b.types.append(("badenum", ["enum BadEn:", "  [maximum_bits: %d]" % mb, "  AA = %d" % (2**mb)]))
        return "badenum"

    @v("enum-value-above-2^64-1")
    def _(rnd, b, info):
        b.types.append(("badenum", ["enum BadEn:", "  AA = 18446744073709551616"]))
        return "badenum"

    @v("enum-value-below--2^63")
    def _(rnd, b, info):
        b.types.append(("badenum", ["enum BadEn:", "  AA = -9223372036854775809"]))
        return "badenum"

    @v("enum-mixes-negative-and-above-2^63")
    def _(rnd, b, info):
        b.types.append(("badenum", ["enum BadEn:", "  AA = -1", "  BB = 9223372036854775808"]))
        return "badenum"

    @v("negative-value-in-unsigned-enum")
    def _(rnd, b, info):
        b.types.append(("badenum", ["enum BadEn:", "  [is_signed: false]", "  AA = -1"]))
        return "badenum"

    @v("signed-enum-value-out-of-range")
    def _(rnd, b, info):
        b.types.append(("badenum", ["enum BadEn:", "  [maximum_bits: 8]", "  [is_signed: true]", "  AA = 128"]))
        return "badenum"

    for mb in (0, 65, -1):
        def mk3(mb=mb):
            def fn(rnd, b, info):
                b.types.append(("badenum", ["enum BadEn:", "  [maximum_bits: %d]" % mb, "  AA = 0"]))
                return "badenum"
            return fn
        V.append(("maximum_bits-%d" % mb, mk3()))

    @v("bits-of-65-bits")
    def _(rnd, b, info):
        b.types.append(("badbits", ["bits BadBits:", "  0 [+32]  UInt  lo", "  32 [+33]  UInt  hi"]))
        return "badbits"

    @v("struct-inside-bits")
    def _(rnd, b, info):
        b.types.append(("badbits", ["bits BadBits:", "  0 [+24]  Sub  s", "  24 [+8]  UInt  x"]))
        return "badbits"

    for kind, w in [("Bcd", 65), ("Bcd", 72), ("Bcd", 76), ("Bcd", 0), ("UInt", 65), ("UInt", 0), ("Int", 65), ("Int", 0), ("UInt", 72), ("Int", 128)]:
        def mk5(kind=kind, w=w):
            def fn(rnd, b, info):
                # run-time parameters are numbers too: the same 1..64 bits
                b.types.append(("badparam", ["struct BadParam(plim: %s:%d):" % (kind, w), "  0 [+1]  UInt  x"]))
                return "badparam"
            return fn
        V.append(("%s-parameter-of-%d-bits" % (kind, w), mk5()))

    @v("array-of-structs-inside-bits")
    def _(rnd, b, info):
        form = rnd.choice(["  0 [+48]  Sub[2]  s", "  0 [+48]  Sub[]  s", "  0 [+48]  Sub[1][2]  s", "  0 [+24]  Sub[1]  s\n  24 [+24]  UInt  pad"])
        b.types.append(("badbits", ["bits BadBits:"] + form.split("\n") + ["  48 [+8]  UInt  x"]))
        return "badbits"

    @v("scalar-in-dynamically-sized-field")
    def _(rnd, b, info):
        # a number needs a width of 1..64 bits that is known when the header is generated
        kind = rnd.choice(["UInt", "Int", "Bcd", "Float", "UInt"])
        size = rnd.choice(["dynsz", "(dynsz == 0 ? 2 : 4)", "dynsz + 1", "4 * dynsz"]) if kind != "Float" else rnd.choice(["dynsz", "(dynsz == 0 ? 4 : 8)"])
        return _add_field(b, info, ["  @ [+1]  UInt  dynsz", "  @ [+%s]  %s  bad" % (size, kind)])

    @v("float-inside-bits-of-wrong-size")
    def _(rnd, b, info):
        b.types.append(("badbits", ["bits BadBits:", "  0 [+24]  Float  s", "  24 [+8]  UInt  x"]))
        return "badbits"

    @v("array-of-dynamically-sized-elements")
    def _(rnd, b, info):
        b.types.append(("Dyn", ["struct Dyn:", "  0 [+1]  UInt  n", "  1 [+n]  UInt:8[]  xs"]))
        return _add_field(b, info, ["  @ [+8]  Dyn[2]  bad"])

    @v("sub-byte-array-elements-in-struct")
    def _(rnd, b, info):
        return _add_field(b, info, ["  @ [+2]  UInt:4[4]  bad"])

    @v("inner-array-dimension-omitted")
    def _(rnd, b, info):
        return _add_field(b, info, ["  @ [+4]  UInt:8[][2]  bad"])

    @v("missing-byte-order")
    def _(rnd, b, info):
        # the only default in force is the one inside struct Foo; a later sibling
        # struct must not inherit it
        mod = [h for h in b.header if "byte_order" in h]
        b.header[:] = [h for h in b.header if "byte_order" not in h]
        if mod and not b.foo_attrs:
            b.foo_attrs.append("  " + mod[0])
        b.types[:] = [(t, ([l for l in ls] if t != "Bi0x" else ls)) for t, ls in b.types]
        b.tail.append(("bad", ["struct NoOrder:", "  0 [+2]  UInt  bad"]))
        return "bad"

    for elem, total, ctx in [("UInt:72", 18, "struct"), ("Int:128", 16, "struct"), ("Bcd:72", 9, "struct"), ("Float:16", 8, "struct"), ("Float:24", 6, "struct"),
                             ("UInt:0", 0, "bits"), ("Float:33", 66, "bits"), ("Flag:2", 4, "bits"), ("UInt:65", 130, "bits")]:
        def mk4(elem=elem, total=total, ctx=ctx):
            def fn(rnd, b, info):
                if ctx == "struct":
                    return _add_field(b, info, ["  @ [+%d]  %s[2]  bad" % (total, elem)])
                b.types.append(("badbits", ["bits BadBits:", "  0 [+%d]  %s[2]  bad" % (total, elem), "  %d [+8]  UInt  ok" % max(total, 8)]))
                return "badbits"
            return fn
        V.append(("array-element-%s" % elem.replace(":", "-of-"), mk4()))

    @v("array-of-enum-wider-than-maximum_bits")
    def _(rnd, b, info):
        b.types.append(("NarrowEn", ["enum NarrowEn:", "  [maximum_bits: 8]", "  AA = 1"]))
        return _add_field(b, info, ["  @ [+4]  NarrowEn:16[2]  bad"])

    @v("array-of-struct-with-wrong-explicit-size")
    def _(rnd, b, info):
        return _add_field(b, info, ["  @ [+8]  Sub:32[2]  bad"])

    @v("null-byte-order-on-two-bytes")
    def _(rnd, b, info):
        return _add_field(b, info, ["  @ [+2]  UInt  bad", '    [byte_order: "Null"]'])

    @v("unknown-byte-order")
    def _(rnd, b, info):
        return _add_field(b, info, ["  @ [+2]  UInt  bad", '    [byte_order: "MiddleEndian"]'])

    @v("byte-order-on-struct-typed-field")
    def _(rnd, b, info):
        return _add_field(b, info, ["  @ [+3]  Sub  bad", '    [byte_order: "BigEndian"]'])

    @v("unknown-attribute")
    def _(rnd, b, info):
        return _add_field(b, info, ["  @ [+1]  UInt  bad", "    [%s: 1]" % rnd.choice(["bogus", "byteorder", "size", "default"])])

    @v("duplicate-attribute")
    def _(rnd, b, info):
        return _add_field(b, info, ["  @ [+2]  UInt  bad", '    [byte_order: "BigEndian"]', '    [byte_order: "BigEndian"]'])

    @v("field-attribute-on-struct")
    def _(rnd, b, info):
        b.tail.append(("bad", ["struct BadAttr:", '  [text_output: "Skip"]', "  0 [+1]  UInt  x"]))
        return "bad"

    @v("enum-attribute-on-field")
    def _(rnd, b, info):
        return _add_field(b, info, ["  @ [+1]  UInt  bad", "    [maximum_bits: 8]"])

    @v("default-of-non-defaultable-attribute")
    def _(rnd, b, info):
        b.tail.append(("bad", ["struct BadAttr:", "  [$default requires: true]", "  0 [+1]  UInt  x"]))
        return "bad"

    @v("default-on-field")
    def _(rnd, b, info):
        return _add_field(b, info, ["  @ [+2]  UInt  bad", '    [$default byte_order: "BigEndian"]'])

    @v("bad-text_output-value")
    def _(rnd, b, info):
        return _add_field(b, info, ["  @ [+1]  UInt  bad", '    [text_output: "%s"]' % rnd.choice(["Hide", "skip", ""])])

    @v("unknown-back-end-attribute")
    def _(rnd, b, info):
        b.tail.append(("bad", ["struct BadAttr:", '  [(java) namespace: "x"]', "  0 [+1]  UInt  x"]))
        return "bad"

    @v("bad-enum_case-value")
    def _(rnd, b, info):
        b.tail.append(("bad", ["enum BadCase:", '  [(cpp) enum_case: "%s"]' % rnd.choice(["snake_case", "kCamelCase,", "", "SHOUTY_CASE, SHOUTY_CASE"]), "  AA = 1"]))
        return "bad"

    @v("bad-namespace-value")
    def _(rnd, b, info):
        b.header.append('[(cpp) namespace: "%s"]' % rnd.choice(["", "::", "a b", "1abc", "a::"]))
        b.header[:] = [h for i, h in enumerate(b.header) if "namespace" not in h or i == len(b.header) - 1]
        return "header"

    @v("reserved-word-as-field-name")
    def _(rnd, b, info):
        words = [w for w in reserved_words(repo) if w.islower() and w.isidentifier() and w[0].isalpha() and w.replace("_", "a").isalnum()]
        return _add_field(b, info, ["  @ [+1]  UInt  %s" % rnd.choice(words)])

    @v("reserved-word-as-type-name")
    def _(rnd, b, info):
        import re

        words = [w for w in reserved_words(repo) if re.fullmatch(r"[A-Z][a-zA-Z0-9]*[a-z][a-zA-Z0-9]*", w)]
        b.tail.append(("bad", ["struct %s:" % rnd.choice(words), "  0 [+1]  UInt  x"]))
        return "bad"

    @v("reserved-word-as-enum-value")
    def _(rnd, b, info):
        import re

        words = [w for w in reserved_words(repo) if re.fullmatch(r"[A-Z][A-Z_0-9]*[A-Z_][A-Z_0-9]*", w)]
        b.tail.append(("bad", ["enum BadEn:", "  %s = 1" % rnd.choice(words)]))
        return "bad"

    @v("duplicate-field-name")
    def _(rnd, b, info):
        return _add_field(b, info, ["  @ [+1]  UInt  bad", "  @ [+1]  UInt  bad"])

    return V
