"""Identifier-shape modules for C07: accepted-looking modules whose names sit next
to identifiers the C++ back end generates itself.

Each module is an ordinary small module (2-4 types) into which exactly ONE
"shape" from the catalogue is injected; the shape name travels with the case so
that failures are bucketed by it.  Shapes listed in `avoid` are not generated
(used to keep searching behind recorded findings).
"""

CPP_NAMESPACES = [
    None,
    "a",
    "a::b",
    "::a::b",
    "emboss::test",
    "::emboss::test::deep::er",
    "a_1::b2",
    "x::x",
    "outer::Outer",
    # components spelled like the namespaces generated code refers to
    "acme::emboss::proto",
    "x::support",
    "a::std::b",
    "q::emboss_generated_code",
]

# plain, harmless names
FIELDS = ["alpha", "beta", "gamma_ray", "delta2", "eps_1_x", "zeta__y", "eta_", "theta", "iota9", "kappa_k"]
TYPES = ["Alpha", "BetaGamma", "Delta2", "EpsX1", "Zeta", "EtaTheta"]
VALUES = ["AA", "BB", "CC_DD", "EE1", "FF_2", "G_G_G", "HH__II", "JJ_"]


RESERVED = set()


def load_reserved(repo):
    """Reserved words of the tree under test (rejected names are not worth generating)."""
    import os

    try:
        with open(os.path.join(repo, "compiler/front_end/reserved_words")) as f:
            for line in f:
                w = line.split("#")[0].strip()
                if w and not w.startswith("--"):
                    RESERVED.add(w)
    except OSError:
        pass


def _struct(name, body, params=""):
    return ["struct %s%s:" % (name, params)] + ["  " + l for l in body]


def shapes():
    """name -> function(rnd) -> list of module lines (without module attributes)."""
    S = {}

    def shape(name):
        def reg(fn):
            S[name] = fn
            return fn

        return reg

    # ---- fields vs generated members -------------------------------------------------
    @shape("field+has_field")
    def _(rnd):
        f = rnd.choice(FIELDS)
        return _struct("Foo", ["0 [+1]  UInt  %s" % f, "1 [+1]  UInt  has_%s" % f])

    @shape("field-named-has_only")
    def _(rnd):
        return _struct("Foo", ["0 [+1]  UInt  has_value", "1 [+1]  UInt  has"])

    @shape("virtual-camel-collision")
    def _(rnd):
        a, b = rnd.choice([("foo_bar", "foo_bar_"), ("foo_bar", "foo__bar"), ("ab_c", "a_bc"), ("x1", "x_1"), ("foo_bar", "foo_Bar".lower() + "_")])
        return _struct("Foo", ["0 [+1]  UInt  base", "let %s = base + 1" % a, "let %s = base + 2" % b])

    @shape("physical-camel-collision")
    def _(rnd):
        a, b = rnd.choice([("foo_bar", "foo_bar_"), ("foo_bar", "foo__bar"), ("x1", "x_1")])
        return _struct("Foo", ["0 [+1]  UInt  %s" % a, "1 [+1]  UInt  %s" % b])

    @shape("inline-type-vs-named-type")
    def _(rnd):
        # an inline enum/bits field foo_bar makes a type FooBar
        return _struct("Foo", ["0 [+1]  enum  foo_bar:", "  AA = 1", "1 [+1]  bits  baz_qux:", "  0 [+8]  UInt  lo"]) + _struct("Other", ["0 [+1]  UInt  foo_bar", "1 [+1]  Foo.FooBar  e"])

    @shape("parameter+field_underscore")
    def _(rnd):
        p = rnd.choice(["x", "len", "kind"])
        return _struct("Foo", ["0 [+%s]  UInt:8[]  data" % p, "%s [+1]  UInt  %s_" % (p, p)], "(%s: UInt:8)" % p)

    @shape("field-named-like-private-member")
    def _(rnd):
        n = rnd.choice(["backing_", "parameters_initialized_", "view_"])
        return _struct("Foo", ["0 [+1]  UInt  %s" % n, "let twice = %s * 2" % n], "(p: UInt:8)")

    @shape("field-named-like-method-lowercase")
    def _(rnd):
        n = rnd.choice(["ok", "is_complete", "size_in_bytes", "equals", "copy_from", "read", "write", "backing_storage", "intrinsic_size_in_bytes", "has", "value", "other", "emboss", "std", "support", "prelude"])
        return _struct("Foo", ["0 [+1]  UInt  %s" % n, "let twice = %s * 2" % n])

    @shape("field-named-like-type-param")
    def _(rnd):
        n = rnd.choice(["storage", "stream", "arg", "other_storage"])
        return _struct("Foo", ["0 [+1]  UInt  %s" % n])

    # ---- types vs generated types ---------------------------------------------------------
    @shape("type+typeView")
    def _(rnd):
        return _struct("Foo", ["0 [+1]  UInt  a"]) + _struct("FooView", ["0 [+1]  UInt  b"])

    @shape("type+typeWriter-enum")
    def _(rnd):
        return _struct("Foo", ["0 [+1]  UInt  a"]) + ["enum FooWriter:", "  AA = 1"]

    @shape("type+GenericTypeView")
    def _(rnd):
        return _struct("Foo", ["0 [+1]  UInt  a"]) + _struct("GenericFooView", ["0 [+1]  UInt  b"])

    @shape("type-named-View")
    def _(rnd):
        n = rnd.choice(["View", "Writer", "Generic", "Make", "Stream", "Arg", "String", "Maybe", "Emboss", "Std", "OtherStorage", "Arg0", "Args", "T"+"ype"])
        return _struct(n, ["0 [+1]  UInt  a"]) + _struct("User", ["0 [+1]  %s  inner" % n])

    @shape("type-named-Storage")
    def _(rnd):
        # `Storage` is the template parameter of every generated view class
        return _struct("Storage", ["0 [+1]  UInt  a"]) + _struct("User", ["0 [+1]  Storage  inner"])

    @shape("nested-type-same-as-outer")
    def _(rnd):
        # a nested type and a top-level type of one name; every reference is qualified so that it is unambiguous
        return ["struct Foo:", "  struct Bar:", "    0 [+1]  UInt  a", "  0 [+1]  Foo.Bar  inner"] + _struct("Bar", ["0 [+2]  UInt  b"]) + _struct("UsesBoth", ["0 [+2]  Bar  outer_bar", "2 [+1]  Foo.Bar  inner_bar"])

    @shape("nested-type-vs-namespace-function")
    def _(rnd):
        # constant virtual fields become functions in namespace Foo; nested types live in namespace Foo too
        return ["struct Foo:", "  enum Kk:", "    AA = 1", "  let kk = 12", "  0 [+1]  Kk  e"]

    @shape("type-vs-field-method-in-enclosing")
    def _(rnd):
        return ["struct Foo:", "  struct Bar:", "    0 [+1]  UInt  a", "  0 [+1]  Bar  bar", "  1 [+1]  Bar  bar2"]

    @shape("enum-in-struct-using")
    def _(rnd):
        # nested enums are imported into the view class with `using`
        return ["struct Foo:", "  enum Kind:", "    AA = 1", "  enum Ok:", "    BB = 2", "  0 [+1]  Kind  kind", "  1 [+1]  Ok  ok_field"]

    # ---- enums ----------------------------------------------------------------------
    @shape("enum-kcamel-collision")
    def _(rnd):
        a, b = rnd.choice([("FOO", "FOO_"), ("FOO_BAR", "FOO__BAR"), ("AB1", "AB_1"), ("FOO_BAR", "FOO_BAR_")])
        return ['[(cpp) $default enum_case: "kCamelCase"]'] + ["enum Foo:", "  %s = 1" % a, "  %s = 2" % b]

    @shape("enum-both-cases")
    def _(rnd):
        return ["enum Foo:", '  [(cpp) $default enum_case: "SHOUTY_CASE, kCamelCase"]', "  AA = 1", "  K_AA = 2", "  BB_CC = 3"] + _struct("Uses", ["0 [+1]  Foo  f", "if f == Foo.K_AA:", "  1 [+1]  UInt  x"])

    @shape("enum-value-like-libc-macro")
    def _(rnd):
        # names of macros that the standard headers the runtime includes may define; reserved words are not generated
        pool = [w for w in ["EOF", "NULL", "INT_MAX", "CHAR_BIT", "UINT8_MAX", "SIZE_MAX", "BUFSIZ", "SEEK_SET", "RAND_MAX", "EXIT_FAILURE", "INT64_C", "UINT64_MAX", "WCHAR_MAX", "EDOM", "ERANGE", "SIG_ATOMIC_MAX", "PTRDIFF_MAX", "BIG_ENDIAN", "LITTLE_ENDIAN", "PDP_ENDIAN", "BYTE_ORDER", "DOMAIN", "OVERFLOW", "UNDERFLOW", "SING", "TLOSS", "PLOSS", "NSIG", "FD_SETSIZE", "NFDBITS", "MB_CUR_MAX", "EXIT_SUCCESS_"] if w not in RESERVED]
        n = rnd.choice(pool or ["SAFE_NAME"])
        return ["enum Foo:", "  %s = 1" % n, "  OTHER = 2"] + _struct("Uses", ["0 [+1]  Foo  f", "if f == Foo.%s:" % n, "  1 [+1]  UInt  x"])

    @shape("enum-value-like-cpp-name")
    def _(rnd):
        n = rnd.choice(["EE", "UU", "TT", "OK", "STORAGE", "VIEW", "K_MAX", "EMBOSS", "STD", "II", "NN", "XX_", "VALUE", "OTHER_", "RESULT", "NAME"])
        return ["enum Foo:", "  %s = 1" % n, "  OTHER = 2"] + _struct("Uses", ["0 [+1]  Foo  f"])

    @shape("enum-named-like-value-type")
    def _(rnd):
        n = rnd.choice(["ValueType", "Parameters", "BufferType", "EnumType", "Enum", "Stream"])
        return ["enum %s:" % n, "  AA = 1"] + _struct("Uses", ["0 [+1]  %s  f" % n, "let g = f"])

    @shape("enum-kcamel-digits")
    def _(rnd):
        return ['[(cpp) $default enum_case: "kCamelCase"]', "enum Foo:", "  A_1B = 1", "  A1_B = 2", "  X2Y_3Z = 3", "  ABC123 = 4"]

    # ---- identifiers with odd but legal shapes ------------------------------------------------
    @shape("digits-and-underscores")
    def _(rnd):
        return _struct("Foo9Bar", ["0 [+1]  UInt  a_1", "1 [+1]  UInt  a__2", "2 [+1]  UInt  a3_", "let b_4_ = a_1 + a__2 + a3_"]) + ["enum E2e:", "  V_1 = 1", "  V__2 = 2", "  V3_ = 3"]

    @shape("field-same-as-type-lowercase")
    def _(rnd):
        return _struct("Foo", ["0 [+1]  UInt  foo", "1 [+1]  UInt  bar"]) + _struct("Bar", ["0 [+2]  Foo  foo", "2 [+2]  Foo  bar"])

    @shape("field-same-as-namespace")
    def _(rnd):
        return _struct("Foo", ["0 [+1]  UInt  a", "1 [+1]  UInt  b", "2 [+1]  UInt  emboss_generated_code"]) + _struct("Aa", ["0 [+3]  Foo  a"])

    @shape("abbreviation-names")
    def _(rnd):
        return _struct("Foo", ["0 [+1]  UInt  length (l)", "l [+1]  UInt  has_l (h)", "let total = l + h"])

    @shape("type-same-as-namespace-component")
    def _(rnd):
        return _struct("Aa", ["0 [+1]  UInt  a"]) + _struct("Bb", ["0 [+1]  Aa  a"]) + _struct("Emboss", ["0 [+1]  UInt  e"]) + _struct("Test", ["0 [+1]  UInt  t"]) + _struct("Deep", ["0 [+1]  UInt  d"]) + _struct("Outer", ["0 [+1]  UInt  o"])

    # ---- not names, but constructs at the edge of what the back end can express in C++ ----------
    # (rejected by the front end where they cannot be; an accepted one must compile and keep its value)
    @shape("wide-mixed-sign-comparison")
    def _(rnd):
        op = rnd.choice(["<", ">", "<=", ">=", "==", "!="])
        return _struct("Foo", ["0 [+8]  UInt  big", "8 [+8]  Int  delta", "if big %s delta:" % op, "  16 [+1]  UInt  x", "let bb = big %s delta" % op])

    @shape("integer-type-boundaries")
    def _(rnd):
        ks = rnd.sample([2**31 - 1, 2**31, 2**32 - 1, 2**32, 2**32 + 1, 2**63 - 1, 2**63, 2**64 - 1, -(2**31), -(2**31) - 1, -(2**63), 2**16, 2**8], 5)
        lines = ["0 [+4]  UInt  count", "4 [+4]  Int  signed_count", "8 [+2]  UInt  small"]
        for i, k_ in enumerate(ks):
            lines.append("let kc%d = %d" % (i, k_))
        lines += ["let one_past_count = count + 1", "let below_signed = signed_count - 1", "let product = small * small", "let shifted = small * 65536", "let wide_sum = count + count"]
        return _struct("Foo", lines)

    return S


def build(rnd, avoid=(), index=None):
    """-> (shape name, module text).  index selects the shape round-robin instead of at random."""
    S = shapes()
    names = sorted(n for n in S if n not in avoid)
    name = rnd.choice(names) if index is None else names[index % len(names)]
    lines = S[name](rnd)
    ns = rnd.choice(CPP_NAMESPACES)
    head = ['[$default byte_order: "%s"]' % rnd.choice(["LittleEndian", "BigEndian"])]
    if ns is not None:
        head.append('[(cpp) namespace: "%s"]' % ns)
    # module-level attributes generated by a shape go to the head
    mod_attrs = [l for l in lines if l.startswith("[")]
    lines = [l for l in lines if not l.startswith("[")]
    # a harmless neighbour type so the module is never trivial
    extra = []
    t = rnd.choice(TYPES)
    f1, f2 = rnd.sample(FIELDS, 2)
    v1, v2 = rnd.sample(VALUES, 2)
    extra += ["enum %sKind:" % t, "  %s = 0" % v1, "  %s = 7" % v2]
    extra += _struct(t + "Plain", ["0 [+2]  UInt  %s" % f1, "2 [+1]  %sKind  %s" % (t, f2), "if %s == %sKind.%s:" % (f2, t, v2), "  3 [+1]  Int  tail", "let sum_%s = %s + 1" % (f1.strip("_"), f1)])
    text = "\n".join(head + mod_attrs + [""] + lines + [""] + extra) + "\n"
    return name, text
