"""Programs realising a given dependency digraph (C15; reused by C16/C17).

A graph is {node index: set of node indices it depends on}.  Three realisations:
fields of one struct, values of enums, files importing each other.
"""

import random


def random_graph(rnd, n=None, acyclic=None):
    n = n or rnd.choice([2, 3, 4, 5, 6, 7, 8, 9])
    g = {i: set() for i in range(n)}
    acyclic = rnd.random() < 0.45 if acyclic is None else acyclic
    density = rnd.choice([0.15, 0.25, 0.4])
    order = list(range(n))
    rnd.shuffle(order)
    pos = {v: i for i, v in enumerate(order)}
    for i in range(n):
        for j in range(n):
            if i == j:
                continue
            if rnd.random() < density:
                if acyclic and pos[j] > pos[i]:
                    continue
                g[i].add(j)
    if not acyclic:
        k = rnd.random()
        if k < 0.25:
            v = rnd.randrange(n)
            g[v].add(v)  # self loop
        elif k < 0.6 and n >= 2:
            # a long cycle through a random subset
            sub = rnd.sample(range(n), rnd.randrange(2, n + 1))
            for a, b in zip(sub, sub[1:] + sub[:1]):
                g[a].add(b)
        if rnd.random() < 0.3 and n >= 4:
            # a second, disjoint 2-cycle
            a, b = rnd.sample(range(n), 2)
            g[a].add(b)
            g[b].add(a)
    for v in g:
        if len(g[v]) > 3:
            g[v] = set(rnd.sample(sorted(g[v]), 3))
    return g


def sccs(g):
    """Kosaraju; returns the list of non-trivial SCCs (size>1 or self-loop) as frozensets."""
    order = []
    seen = set()
    for s in g:
        if s in seen:
            continue
        stack = [(s, iter(sorted(g[s])))]
        seen.add(s)
        while stack:
            v, it = stack[-1]
            adv = False
            for w in it:
                if w not in seen:
                    seen.add(w)
                    stack.append((w, iter(sorted(g[w]))))
                    adv = True
                    break
            if not adv:
                order.append(v)
                stack.pop()
    rev = {v: set() for v in g}
    for v in g:
        for w in g[v]:
            rev[w].add(v)
    comp = {}
    out = []
    for s in reversed(order):
        if s in comp:
            continue
        c = set()
        stack = [s]
        comp[s] = s
        while stack:
            v = stack.pop()
            c.add(v)
            for w in rev[v]:
                if w not in comp:
                    comp[w] = s
                    stack.append(w)
        if len(c) > 1 or any(v in g[v] for v in c):
            out.append(frozenset(c))
    return out


def sum_expr(names, const=None):
    parts = list(names)
    if const is not None or not parts:
        parts.append(str(const if const is not None else 0))
    return " + ".join(parts)


def struct_program(rnd, g):
    """Returns (text, node names, kinds, where) for a struct whose fields realise g."""
    n = len(g)
    names = ["f%d" % i for i in range(n)]
    # nodes that something depends on must be integer-valued
    targets = set(w for v in g for w in g[v])
    kinds = {}
    for v in range(n):
        if v in targets:
            # a parameterised-struct field is depended upon through its member q (an integer)
            kinds[v] = rnd.choice(["scalar", "scalar", "virtual", "param-struct"])
        else:
            kinds[v] = rnd.choice(["scalar", "virtual", "array", "param-struct"])
    lines = ["struct Pp(n: UInt:8):", "  0 [+1]  UInt  q", "struct Foo:"]
    where = {}
    pos = 0

    # inside a cycle nothing is constant anyway: there a virtual field may also be named through its
    # structure (Foo.f3), which makes that link of the cycle a type-qualified reference
    comp = {}
    for c in sccs(g):
        for v in c:
            comp[v] = id(c)

    use_cond = {v: bool(kinds[v] == "virtual" and g[v] and rnd.random() < 0.3) for v in range(n)}

    def value_in_cycle(w):
        # the VALUE of w (not merely its condition) mentions a member of w's own cycle
        vd = sorted(g[w])[1:] if use_cond[w] else sorted(g[w])
        return any(comp.get(u) is not None and comp.get(u) == comp.get(w) for u in vd)

    def ref(w, v=None):
        if v is not None and kinds[w] == "virtual" and comp.get(v) is not None and comp.get(v) == comp.get(w) and value_in_cycle(w) and rnd.random() < 0.4:
            return "Foo." + names[w]
        return names[w] + (".q" if kinds[w] == "param-struct" else "")

    for v in range(n):
        deps = [ref(w, v) for w in sorted(g[v])]
        k = kinds[v]
        pos += 2
        if k == "virtual":
            if use_cond[v]:
                lines.append("  if %s == 1:" % deps[0])
                lines.append("    let %s = %s" % (names[v], sum_expr(deps[1:], 1)))
                where[v] = "condition+value"
            else:
                lines.append("  let %s = %s" % (names[v], sum_expr(deps, 1)))
                where[v] = "value"
        elif k == "scalar":
            mode = rnd.choice(["start", "cond", "split"]) if deps else "none"
            if mode == "start":
                lines.append("  %s [+1]  UInt  %s" % (sum_expr(deps, pos), names[v]))
            elif mode == "cond":
                lines.append("  if %s > 0:" % sum_expr(deps))
                lines.append("    %d [+1]  UInt  %s" % (pos, names[v]))
            elif mode == "split":
                lines.append("  if %s == 0:" % deps[0])
                lines.append("    %s [+1]  UInt  %s" % (sum_expr(deps[1:], pos), names[v]))
            else:
                lines.append("  %d [+1]  UInt  %s" % (pos, names[v]))
            where[v] = mode
        elif k == "array":
            mode = rnd.choice(["size", "length", "both"]) if deps else "none"
            if mode == "none":
                lines.append("  %d [+2]  UInt:8[2]  %s" % (pos, names[v]))
            elif mode == "size":
                lines.append("  %d [+%s]  UInt:8[]  %s" % (pos, sum_expr(deps), names[v]))
            elif mode == "length":
                e = sum_expr(deps)
                lines.append("  %d [+%s]  UInt:8[%s]  %s" % (pos, e, e, names[v]))
            else:
                e = sum_expr(deps[:1])
                lines.append("  %s [+%s]  UInt:8[]  %s" % (sum_expr(deps[1:], pos), e, names[v]))
            where[v] = "array-" + mode
        else:
            lines.append("  %d [+1]  Pp(%s)  %s" % (pos, sum_expr(deps, 1), names[v]))
            where[v] = "type-argument"
    # fields that read the structure's own generated fields (not graph nodes: nothing depends on them)
    if rnd.random() < 0.35:
        gen = rnd.choice(["$size_in_bytes", "$max_size_in_bytes", "$min_size_in_bytes"])
        spots = [i for i in range(3, len(lines) + 1) if not lines[i - 1].startswith("  if ")]
        lines.insert(rnd.choice(spots) if rnd.random() < 0.5 else len(lines), "  let total = %s + 2" % gen)
        kinds["total"] = gen
    return "\n".join(lines) + "\n", names, kinds, where


def enum_program(rnd, g):
    n = len(g)
    names = ["V%d_" % i for i in range(n)]
    # split nodes across two enums
    split = rnd.randrange(1, n + 1)
    owner = {v: ("Ee" if v < split else "Ff") for v in range(n)}
    lines = []
    for en in ("Ee", "Ff"):
        mine = [v for v in range(n) if owner[v] == en]
        if not mine:
            continue
        lines.append("enum %s:" % en)
        for v in mine:
            deps = []
            for w in sorted(g[v]):
                deps.append(names[w] if owner[w] == en and rnd.random() < 0.7 else "%s.%s" % (owner[w], names[w]))
            lines.append("  %s = %s" % (names[v], sum_expr(deps, None if len(deps) == 1 else v + 1)))
    return "\n".join(lines) + "\n", names, owner


def import_program(rnd, g):
    """Files m0.emb.. importing each other per g; main is m0.emb."""
    n = len(g)
    files = {}
    for v in range(n):
        lines = []
        order = sorted(g[v])
        rnd.shuffle(order)  # which import comes last is not tied to the numbering
        for w in order:
            lines.append('import "m%d.emb" as i%d' % (w, w))
        if rnd.random() < 0.3:
            # one more import that is on no cycle, before or after the others
            lines.insert(rnd.choice([0, len(lines)]), 'import "leaf.emb" as leaf')
        lines.append("struct S%dx:" % v)
        lines.append("  0 [+1]  UInt  a")
        files["m%d.emb" % v] = "\n".join(lines) + "\n"
    files["leaf.emb"] = "struct Leaf:\n  0 [+1]  UInt  a\n"
    return files, "m0.emb"


def reachable(g, s):
    seen = {s}
    work = [s]
    while work:
        v = work.pop()
        for w in g[v]:
            if w not in seen:
                seen.add(w)
                work.append(w)
    return seen
