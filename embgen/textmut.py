"""Unstructured and semi-structured source-text generators: random text, token
soup, and line/token mutations of valid programs."""

import random
import re

from compiler.front_end import tokenizer

from embgen import gsample

LINE_BREAKS = ["\n", "\n", "\n", "\r\n", "\r", "\v", "\f", "\x1c", "\x1d", "\x1e", "\x85", " ", " "]
SPACES = [" ", " ", " ", "\t", "\xa0", " ", "\x1f"]
ALPHABET = (
    list("abcdefghijklmnopqrstuvwxyzABCDEFGHIJKLMNOPQRSTUVWXYZ0123456789_$")
    + list("[]():=+-*.?!&|<>,#\"\\' ")
    + ["é", "中", "\x00", "\x7f", "~", "@", "%", "^", ";", "{", "}", "`", "/"]
    # characters that Python's str methods and \d / \w treat as digits or letters but the documented
    # patterns ([0-9], [a-z], [A-Z]) do not: Arabic-Indic and fullwidth digits, superscripts, Greek, Cyrillic
    + ["\u0661", "\u0666", "\uff18", "\u00b2", "\u0969", "\u03b1", "\u0410", "\u00e0", "\u017f", "\uff21", "\u2160"]
)

KEYWORD_LIKE = [
    "struct", "structure", "bits", "bitsy", "enum", "enums", "external", "import", "imports", "as", "if", "iff", "let", "lets",
    "$default", "$defaults", "$max", "$max_size", "$max_size_in_bits", "$present", "$next", "$nexts", "$size_in_bytes", "$size_in_bits",
    "$upper_bound", "$lower_bound", "$static_size_in_bits", "$is_statically_sized", "$min_size_in_bytes", "$", "$x",
    "true", "false", "truefalse", "True",
]
NUMBER_LIKE = ["0", "00", "007", "1_000", "1_00", "1__000", "0x_ff", "0x", "0xff_ffff", "0xf_ffff_ffff", "0b2", "0b_1", "0b1010_1010", "0b101_0", "0B1", "0X1", "1e5", "12ab", "0x1G", "_1", "1_", "9" * 25, "\u0661\u0666", "1\u0661", "\uff18", "\u00b2", "0x\uff21", "1_\u0660\u0660\u0660"]
WORD_LIKE = ["a", "A", "A1", "AB", "A_", "Ab", "aB", "abcDef", "a_b", "a__b", "_a", "Foo", "FOO", "Foo_Bar", "FOo", "fOO", "EmbossReserved", "EmbossReservedX", "emboss_reserved", "emboss_reserved_x", "EMBOSS_RESERVED", "EMBOSS_RESERVED_X", "emboss_reserve", "x1", "X1", "XY1", "\u03b1b", "a\u00e0", "\u0410a", "A\uff21", "a\u0661", "\u017f"]
DOC_LIKE = ["--", "-- ", "-- x", "--x", "---", "-- --", "- -", "-", "--\t", "# c", "#", "#--"]
STRING_LIKE = ['"', '""', '"a"', '"a', '"\\n"', '"\\q"', '"\\"', '"a"b"', "'a'", '"\\\\"', '"a\\', '"é"']
PUNCT = list(tokenizer.LITERAL_TOKEN_PATTERNS[:20]) + ["===", "!==", "<==", "&&&", "|", "&", "!", "<>", "=>", "..", "::", "?:", "[[", "]]", "+-", "-+", "--", "->"]


def random_text(rnd, max_len=200):
    n = rnd.randrange(0, max_len)
    out = []
    for _ in range(n):
        r = rnd.random()
        if r < 0.08:
            out.append(rnd.choice(LINE_BREAKS))
        elif r < 0.25:
            out.append(rnd.choice(SPACES))
        elif r < 0.45:
            out.append(rnd.choice(KEYWORD_LIKE + NUMBER_LIKE + WORD_LIKE + PUNCT))
        else:
            out.append(rnd.choice(ALPHABET))
    return "".join(out)


def token_soup(rnd, max_lines=30):
    lines = []
    indent = [""]
    for _ in range(rnd.randrange(1, max_lines)):
        r = rnd.random()
        if r < 0.25:
            indent.append(indent[-1] + rnd.choice([" ", "  ", "\t", "    ", " \t"]))
        elif r < 0.45 and len(indent) > 1:
            for _ in range(rnd.randrange(1, len(indent))):
                indent.pop()
        elif r < 0.5:
            indent = [rnd.choice(["", " ", "   ", "\t "])]  # possibly a level never opened
        toks = []
        for _ in range(rnd.randrange(0, 9)):
            pool = rnd.choice([KEYWORD_LIKE, NUMBER_LIKE, WORD_LIKE, DOC_LIKE, STRING_LIKE, PUNCT, PUNCT, gsample.SNAKE, gsample.CAMEL, gsample.SHOUTY, gsample.NUMBERS])
            toks.append(rnd.choice(pool))
            toks.append(rnd.choice(["", " ", " ", " ", "  ", "\t"]))
        lines.append(indent[-1] + "".join(toks))
    brk = rnd.choice(["\n", "\n", "\n", "\r\n", "\r"]) if rnd.random() < 0.9 else None
    if brk is None:
        return "".join(l + rnd.choice(LINE_BREAKS) for l in lines)
    return brk.join(lines) + (brk if rnd.random() < 0.8 else "")


_TOKEN_RX = re.compile(r'"(?:[^"\n\\]|\\.)*"|--.*|#.*|[A-Za-z_$][A-Za-z_$0-9]*|[0-9][0-9a-fA-Fx_]*|==|!=|<=|>=|&&|\|\||\s+|.', re.S)


def split_tokens(line):
    return _TOKEN_RX.findall(line)


def mutate(rnd, text, donors=(), n_mut=None):
    """Line- and token-level mutations of a source text."""
    lines = text.split("\n")
    n_mut = n_mut or rnd.choice([1, 1, 1, 2, 3, 5])
    for _ in range(n_mut):
        if not lines:
            lines = [""]
        op = rnd.randrange(14)
        i = rnd.randrange(len(lines))
        if op == 0:
            del lines[i]
        elif op == 1:
            lines.insert(i, lines[rnd.randrange(len(lines))])
        elif op == 2:
            j = rnd.randrange(len(lines))
            lines[i], lines[j] = lines[j], lines[i]
        elif op == 3:  # change indentation
            l = lines[i]
            s = l.lstrip(" ")
            lines[i] = " " * max(0, (len(l) - len(s)) + rnd.choice([-4, -2, -1, 1, 2, 4])) + s
        elif op == 4:  # truncate file
            lines = lines[: i + 1]
            if rnd.random() < 0.5:
                lines[-1] = lines[-1][: rnd.randrange(len(lines[-1]) + 1)]
        elif op in (5, 6, 7, 8, 9):  # token edits
            toks = split_tokens(lines[i])
            if not toks:
                continue
            k = rnd.randrange(len(toks))
            if op == 5:
                del toks[k]
            elif op == 6:
                toks.insert(k, rnd.choice(KEYWORD_LIKE + NUMBER_LIKE + WORD_LIKE + PUNCT + gsample.NUMBERS + gsample.SNAKE + gsample.CAMEL + gsample.SHOUTY))
                toks.insert(k + 1, " ")
            elif op == 7:
                j = rnd.randrange(len(toks))
                toks[k], toks[j] = toks[j], toks[k]
            elif op == 8:  # replace with a token of another line
                other = split_tokens(lines[rnd.randrange(len(lines))])
                if other:
                    toks[k] = rnd.choice(other)
            else:  # tweak a number
                if re.match(r"[0-9]", toks[k]):
                    toks[k] = rnd.choice(["0", "1", "63", "64", "65", "128", "9223372036854775807", "9223372036854775808", "18446744073709551615", "18446744073709551616", str(rnd.randrange(0, 300))])
                else:
                    toks[k] = rnd.choice(gsample.SNAKE + gsample.CAMEL + gsample.SHOUTY)
            lines[i] = "".join(toks)
        elif op == 10 and donors:  # splice a block from a donor program
            d = rnd.choice(donors).split("\n")
            a = rnd.randrange(len(d))
            b = min(len(d), a + rnd.randrange(1, 8))
            lines[i:i] = d[a:b]
        elif op == 11:  # delete a block
            b = min(len(lines), i + rnd.randrange(1, 6))
            del lines[i:b]
        elif op == 12:  # wrap an expression-looking token in parens / negate
            toks = split_tokens(lines[i])
            if toks:
                k = rnd.randrange(len(toks))
                toks[k] = rnd.choice(["(%s)", "-%s", "+%s", "%s+1", "%s*2", "%s == %s", "%s ? %s : 0", "$max(%s)", "$present(%s)", "$upper_bound(%s)", "%s.x", "%s[4]", "%s:8"]).replace("%s", toks[k])
                lines[i] = "".join(toks)
        else:  # insert junk char
            l = lines[i]
            k = rnd.randrange(len(l) + 1)
            lines[i] = l[:k] + rnd.choice(ALPHABET + LINE_BREAKS) + l[k:]
    return "\n".join(lines)


def deep_expression(rnd, depth):
    """An expression text nested to the given depth (C16: nesting <= 40)."""
    e = rnd.choice(["1", "x", "true", "AA"])
    for _ in range(depth):
        k = rnd.randrange(6)
        if k == 0:
            e = "(%s)" % e
        elif k == 1:
            e = "-%s" % ("(%s)" % e if e.startswith("-") else e)
        elif k == 2:
            e = "(%s + 1)" % e
        elif k == 3:
            e = "$max(%s, 0)" % e
        elif k == 4:
            e = "(true ? %s : 0)" % e
        else:
            e = "(%s * 1)" % e
    return e
