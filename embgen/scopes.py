"""Random scope trees with references whose target is computed by an
independent resolver (C12).

Scoping model (compiler-design.md "Symbol Resolution", probed on the tree):
 * one table per scope (module, struct/bits, enum) holding types, fields,
   parameters, abbreviations, enum values and import aliases together;
   a second definition of a name in one table is a duplicate;
 * the search list at a site is [current type, enclosing types..., module,
   prelude]; types and import aliases are found in every scope on the list,
   fields / parameters / abbreviations / enum values only in the current one;
 * hits in two scopes on the list are ambiguous (even a user type that shadows a
   prelude type);
 * after the head, `.name` is looked up in the found scope's own table
   (abbreviations are not visible there); a tail after a *field* goes through the
   field's type; arrays and scalars have no members.
"""

import random

PRELUDE_TYPES = ["UInt", "Int", "Flag", "Bcd", "Float"]

TYPE_POOL = ["Aa", "Bb", "Cc", "Dd"]
ENUM_POOL = ["Ee", "Ff", "Aa"]
FIELD_POOL = ["x", "y", "z", "w", "len"]
ABBR_POOL = ["x", "l", "q", "z"]
VALUE_POOL = ["AA", "BB", "CC"]
INLINE_POOL = ["aa", "bb", "ee", "ff", "dd"]  # inline `enum aa:` fields define types Aa, Bb, ... that collide with the pools above


class Def(object):
    def __init__(self, kind, name, scope, line=None):
        self.kind = kind  # struct enum field param abbr value import
        self.name = name
        self.scope = scope  # Scope in whose table it lives
        self.line = line
        self.own = None  # Scope of a type / imported module
        self.ftype = None  # for fields: None (scalar) or Def of a type
        self.array = False
        self.field = None  # for abbr: the field Def

    def canonical(self):
        if self.kind == "abbr":
            return self.field.canonical()
        return (self.scope.file, tuple(self.scope.path) + (self.name,))


class Scope(object):
    def __init__(self, kind, name, parent, file):
        self.kind = kind
        self.name = name
        self.parent = parent
        self.file = file
        self.path = (tuple(parent.path) + (name,)) if parent is not None and kind != "module" else ()
        self.defs = []  # in definition order (duplicates allowed)

    def table(self):
        t = {}
        for d in self.defs:
            t.setdefault(d.name, d)  # the first definition wins; later ones are duplicates
        return t

    def duplicates(self):
        seen = {}
        out = []
        for d in self.defs:
            if d.name in seen:
                out.append(d)
            else:
                seen[d.name] = d
        return out


class Ref(object):
    def __init__(self, kind, path, scope, line, holder):
        self.kind = kind  # 'type' or 'value'
        self.path = path  # list of names as spelled
        self.scope = scope  # Scope at the site
        self.line = line
        self.holder = holder  # name of the field holding the reference (to find it in the IR)


def prelude_scope():
    s = Scope("module", "", None, "")
    for n in PRELUDE_TYPES:
        d = Def("struct", n, s)
        d.own = Scope("struct", n, s, "")
        d.scalar = True
        s.defs.append(d)
    return s


SEARCHABLE = ("struct", "enum", "import")


def resolve(ref, prelude):
    """Returns ('ok', Def) or ('undefined'|'ambiguous'|'no-member'|'array-member', name)."""
    chain = []
    s = ref.scope
    while s is not None:
        chain.append(s)
        s = s.parent
    chain.append(prelude)
    head = ref.path[0]
    found = []
    for i, sc in enumerate(chain):
        d = sc.table().get(head)
        if d is not None and (i == 0 or d.kind in SEARCHABLE):
            found.append(d)
    if not found:
        return ("undefined", head)
    if len(found) > 1:
        return ("ambiguous", head)
    cur = found[0]
    for name in ref.path[1:]:
        if cur.kind in ("field", "abbr", "param"):
            f = cur.field if cur.kind == "abbr" else cur
            hops = 0
            while getattr(f, "alias_ref", None) is not None and hops < 8:
                # a virtual field that is a plain path is an alias: members are
                # looked up in the field it points to
                hops += 1
                out = resolve(f.alias_ref, prelude)
                if out[0] != "ok" or out[1].kind not in ("field", "abbr"):
                    return ("no-member", name)
                f = out[1].field if out[1].kind == "abbr" else out[1]
            if f.kind == "param":
                return ("no-member", name)
            if f.array:
                return ("array-member", name)
            if f.ftype is None:
                return ("no-member", name)
            table = f.ftype.own.table()
            d = table.get(name)
            if d is None or d.kind == "abbr":
                return ("no-member", name)
            cur = d
        elif cur.kind in ("struct", "enum", "import"):
            d = cur.own.table().get(name)
            if d is None or d.kind == "abbr":
                return ("undefined", name)
            cur = d
        else:
            return ("no-member", name)
    return ("ok", cur)


class Builder(object):
    def __init__(self, rnd):
        self.rnd = rnd
        self.lines = {}  # file -> list of lines
        self.refs = []
        self.n = 0
        self.prelude = prelude_scope()
        self.all_types = []  # Defs of user types (any file)
        self.faults = []  # (kind, file, line)

    def emit(self, file, text):
        self.lines.setdefault(file, []).append(text)
        return len(self.lines[file])

    def uniq(self, prefix):
        self.n += 1
        return "%s%d" % (prefix, self.n)

    def pick_name(self, pool, scope, allow_dup=0.015):
        r = self.rnd
        if pool is TYPE_POOL and r.random() < 0.03:
            return "UInt"  # shadows a prelude type
        used = set(d.name for d in scope.defs)
        free = [n for n in pool if n not in used]
        if free and not (used and r.random() < allow_dup):
            return r.choice(free)
        if used & set(pool) and r.random() < 0.04:
            return r.choice(sorted(used & set(pool)))  # deliberate duplicate
        return self.uniq(pool[0].lower() if pool[0][0].islower() else pool[0])

    # ---- definitions ---------------------------------------------------------------
    def enum(self, scope, file, depth):
        r = self.rnd
        name = self.pick_name(ENUM_POOL, scope)
        d = Def("enum", name, scope)
        d.own = Scope("enum", name, scope, file)
        d.line = self.emit(file, "  " * depth + "enum %s:" % name)
        scope.defs.append(d)
        for i in range(r.choice([1, 2, 3])):
            vn = self.pick_name(VALUE_POOL, d.own, allow_dup=0.03)
            v = Def("value", vn, d.own)
            v.line = self.emit(file, "  " * (depth + 1) + "%s = %d" % (vn, i))
            d.own.defs.append(v)
        self.all_types.append(d)
        return d

    def struct(self, scope, file, depth):
        r = self.rnd
        name = self.pick_name(TYPE_POOL, scope)
        d = Def("struct", name, scope)
        d.own = Scope("struct", name, scope, file)
        params = ""
        pdefs = []
        if r.random() < 0.25:
            pn = r.choice(["p", "x", "n"])
            params = "(%s: UInt:8)" % pn
            pdefs.append(Def("param", pn, d.own))
        d.line = self.emit(file, "  " * depth + "struct %s%s:" % (name, params))
        for p in pdefs:
            p.line = d.line
            # the parameter's type is a reference too, looked up from inside the structure
            pref = Ref("type", ["UInt"], d.own, d.line, p.name)
            self.refs.append(pref)
        scope.defs.append(d)
        self.all_types.append(d)
        if depth < 2:
            for _ in range(r.choice([0, 0, 1, 1, 2]) if r.random() < 0.5 else r.choice([0, 0, 1])):
                if r.random() < 0.35:
                    self.enum(d.own, file, depth + 1)
                else:
                    self.struct(d.own, file, depth + 1)
        # NOTE: the compiler adds parameters to the table after fields
        pos = 0
        nf = r.choice([1, 2, 2, 3])
        for i in range(nf):
            self.field(d, file, depth + 1, pos)
            pos += 1
        d.own.defs.extend(pdefs)
        # reference sites
        for _ in range(r.choice([1, 1, 2, 3])):
            self.ref_site(d, file, depth + 1, pos)
            pos += 1
        return d

    def inline_enum_field(self, sdef, file, depth, pos):
        """`pos [+1] enum aa:` defines the field aa AND a type Aa in the structure's scope; the
        compiler-generated reference from the field to that type is the one reference that is
        resolved innermost-first without an ambiguity check.  Names are chosen so that the type
        collides with the type pools."""
        r = self.rnd
        sc = sdef.own
        used = set(d.name for d in sc.defs)
        free = [n for n in INLINE_POOL if n not in used]
        if not free:
            return False
        name = r.choice(free)
        tname = name[0].upper() + name[1:]
        f = Def("field", name, sc)
        f.line = self.emit(file, "  " * depth + "%d [+1]  enum  %s:" % (pos, name))
        td = Def("enum", tname, sc)
        td.own = Scope("enum", tname, sc, file)
        td.line = f.line
        for i in range(r.choice([1, 2])):
            vn = self.pick_name(VALUE_POOL, td.own, allow_dup=0.0)
            v = Def("value", vn, td.own)
            v.line = self.emit(file, "  " * (depth + 1) + "%s = %d" % (vn, i))
            td.own.defs.append(v)
        f.ftype = td
        sc.defs.append(td)
        sc.defs.append(f)
        self.all_types.append(td)
        return True

    def anonymous_bits_field(self, sdef, file, depth, pos):
        """`pos [+1] bits:` with members: each member's name is ALSO a name of the enclosing
        structure (the compiler adds an alias there), so it can collide with fields of the structure."""
        r = self.rnd
        sc = sdef.own
        self.emit(file, "  " * depth + "%d [+1]  bits:" % pos)
        off = 0
        for i in range(r.choice([1, 2])):
            name = self.pick_name(FIELD_POOL, sc, allow_dup=0.15)
            f = Def("field", name, sc)
            f.line = self.emit(file, "  " * (depth + 1) + "%d [+%d]  UInt  %s" % (off, 3, name))
            f.ftype = None
            off += 3
            sc.defs.append(f)
            # the member's type is a reference like any other (ambiguous when a user type shadows UInt)
            ref = Ref("type", ["UInt"], sc, f.line, name)
            ref.no_binding_check = True  # the name in the structure is an alias; the typed member sits in the reserved anonymous type
            self.refs.append(ref)
        return True

    def field(self, sdef, file, depth, pos):
        r = self.rnd
        sc = sdef.own
        if r.random() < 0.12 and self.inline_enum_field(sdef, file, depth, pos):
            return
        if r.random() < 0.1 and self.anonymous_bits_field(sdef, file, depth, pos):
            return
        name = self.pick_name(FIELD_POOL, sc, allow_dup=0.03)
        f = Def("field", name, sc)
        abbr = None
        if r.random() < 0.2:
            abbr = self.pick_name(ABBR_POOL, sc, allow_dup=0.05)
        k = r.random()
        tname = "UInt"
        if k < 0.5:
            cands = [t for t in self.all_types if t is not sdef]
            structs = [t for t in cands if t.kind == "struct" and any(m.kind == "field" for m in t.own.defs)]
            if cands:
                t = r.choice(structs) if structs and r.random() < 0.6 else r.choice(cands)
                ref = Ref("type", self.spell_type(t, sc), sc, None, name)
                tname = ".".join(ref.path)
                f.ftype = "pending"
                f._ref = ref
        arr = ""
        if r.random() < 0.1:
            arr = "[2]" if tname == "UInt" else "[1]"
            f.array = True
        tn = tname + (":8" if tname == "UInt" and arr else "") + arr
        f.line = self.emit(file, "  " * depth + "%d [+%d]  %s  %s%s" % (pos, 2 if arr and tname == "UInt" else 1, tn, name, (" (%s)" % abbr) if abbr else ""))
        if getattr(f, "_ref", None) is None:
            # a plain scalar type is a reference too (to the prelude, unless shadowed)
            f._ref = Ref("type", ["UInt"], sc, None, name)
        if getattr(f, "_ref", None) is not None:
            f._ref.line = f.line
            self.refs.append(f._ref)
            out = resolve(f._ref, self.prelude)
            f.ftype = out[1] if out[0] == "ok" and out[1].kind in ("struct", "enum") and not getattr(out[1], "scalar", False) else None
        sc.defs.append(f)
        if abbr:
            a = Def("abbr", abbr, sc)
            a.field = f
            a.line = f.line
            sc.defs.append(a)

    def spell_type(self, t, site):
        """A spelling of type t from `site` that usually (not always) works."""
        r = self.rnd
        full = list(t.scope.path) + [t.name]
        if t.scope.file != site.file:
            alias = self.alias_for(site.file, t.scope.file)
            if r.random() < 0.1:
                return full  # forgot the alias
            return [alias] + full
        chain = []
        sc = site
        while sc is not None:
            chain.append(sc)
            sc = sc.parent
        k = r.random()
        if t.scope in chain:
            clash = sum(1 for c in chain if t.name in c.table()) > 1 or t.name in PRELUDE_TYPES
            if k < (0.15 if clash else 0.6):
                return [t.name]  # bare: works if exactly one visible scope defines it
            if k < 0.9:
                return full
            return full[-2:] if len(full) >= 2 else full
        if k < 0.12:
            return [t.name]  # not visible from here
        if k < 0.9:
            return full
        return full[-2:] if len(full) >= 2 else full

    def alias_for(self, file, other):
        return self.aliases.get((file, other), "zz")

    def ref_site(self, sdef, file, depth, pos):
        r = self.rnd
        sc = sdef.own
        k = r.random()
        holder = self.uniq("r")
        fields = [d for d in sc.defs if d.kind in ("field", "abbr", "param")]
        if k < 0.3 and fields:
            # local field / abbreviation / parameter / earlier alias, maybe with a member path
            aliases = [d for d in fields if getattr(d, "alias_ref", None) is not None]
            deep = [d for d in aliases if len(d.alias_ref.path) >= 2]
            composite = [d for d in fields if d.kind == "field" and d.ftype is not None and d.ftype != "pending" and d.ftype.kind == "struct"]
            if deep and r.random() < 0.35:
                d = r.choice(deep)
            elif aliases and r.random() < 0.3:
                d = r.choice(aliases)
            elif composite and r.random() < 0.5:
                d = r.choice(composite)
            else:
                d = r.choice(fields)
            path = [d.name]
            f = d.field if d.kind == "abbr" else d
            if getattr(f, "alias_ref", None) is not None:
                o = resolve(f.alias_ref, self.prelude)
                if o[0] == "ok" and o[1].kind in ("field", "abbr"):
                    f = o[1].field if o[1].kind == "abbr" else o[1]
            for _ in range(2):
                if f.kind == "field" and f.ftype is not None and f.ftype != "pending" and f.ftype.kind == "struct" and r.random() < 0.85:
                    mem = [m for m in f.ftype.own.defs if m.kind in ("field", "abbr")]
                    if not mem:
                        break
                    m = r.choice(mem)
                    path.append(m.name)
                    f = m.field if m.kind == "abbr" else m
                else:
                    break
            if r.random() < 0.04:
                path.append(r.choice(FIELD_POOL))
            ref = Ref("value", path, sc, None, holder)
            text = "let %s = %s" % (holder, ".".join(path))
        elif k < 0.36:
            # a field of an enclosing struct, an abbreviation of another struct, or junk
            outer = sc.parent
            cands = []
            while outer is not None:
                cands += [d.name for d in outer.defs if d.kind in ("field", "abbr", "param")]
                outer = outer.parent
            name = r.choice(cands) if cands and r.random() < 0.7 else r.choice(FIELD_POOL + ["nope"])
            local = [d.name for d in sc.defs if d.kind in ("field", "abbr", "param")]
            if local and r.random() < 0.6:
                name = r.choice(local)
            ref = Ref("value", [name], sc, None, holder)
            text = "let %s = %s" % (holder, name)
        elif k < 0.75:
            # enum value / type constant
            enums = [t for t in self.all_types if t.kind == "enum"]
            if enums:
                e = r.choice(enums)
                v = r.choice(e.own.defs)
                tp = self.spell_type(e, sc)
                path = tp + [v.name]
                if r.random() < 0.05:
                    path = [v.name]  # bare value name outside its enum
                if r.random() < 0.04:
                    path = tp + [r.choice(VALUE_POOL + ["ZZ_"])]
            elif fields:
                path = [r.choice(fields).name]
            else:
                path = ["nope"]
            ref = Ref("value", path, sc, None, holder)
            text = "let %s = %s" % (holder, ".".join(path))
        else:
            cands = [t for t in self.all_types if t is not sdef]
            if cands:
                t = r.choice(cands)
                path = self.spell_type(t, sc)
                if r.random() < 0.06:
                    path = path[:-1] + [r.choice(TYPE_POOL + ["Zz"])]
            else:
                path = ["UInt"]
            ref = Ref("type", path, sc, None, holder)
            text = "%d [+1]  %s  %s" % (pos, ".".join(path), holder)
        ref.line = self.emit(file, "  " * depth + text)
        self.refs.append(ref)
        hd = Def("field", holder, sc)
        hd.line = ref.line
        hd.alias_ref = ref if (ref.kind == "value" and ref.path[-1][0].islower()) else None
        if ref.kind == "type":
            out = resolve(ref, self.prelude)
            hd.ftype = out[1] if out[0] == "ok" and out[1].kind in ("struct", "enum") and not getattr(out[1], "scalar", False) else None
        sc.defs.append(hd)

    # ---- module ---------------------------------------------------------------------------
    def build(self):
        r = self.rnd
        self.aliases = {}
        files = ["m.emb"]
        mods = {}
        if r.random() < 0.5:
            files = ["i.emb", "m.emb"]
        for f in files:
            mods[f] = Scope("module", f, None, f)
        if len(files) == 2:
            alias = r.choice(["im", "x", "aa"])
            self.aliases[("m.emb", "i.emb")] = alias
            d = Def("import", alias, mods["m.emb"])
            d.own = mods["i.emb"]
            d.line = self.emit("m.emb", 'import "i.emb" as %s' % alias)
            mods["m.emb"].defs.append(d)
            if r.random() < 0.06:
                d2 = Def("import", alias, mods["m.emb"])
                d2.own = mods["i.emb"]
                d2.line = self.emit("m.emb", 'import "i.emb" as %s' % alias)
                mods["m.emb"].defs.append(d2)
        for f in files:
            self.emit(f, '[$default byte_order: "LittleEndian"]')
            for _ in range(r.choice([1, 2, 2, 3]) if f == "m.emb" else r.choice([1, 1, 2])):
                if r.random() < 0.3:
                    self.enum(mods[f], f, 0)
                else:
                    self.struct(mods[f], f, 0)
        self.mods = mods
        return {f: "\n".join(self.lines[f]) + "\n" for f in files}

    def all_scopes(self):
        out = []

        def walk(s):
            out.append(s)
            for d in s.defs:
                if d.kind in ("struct", "enum") and d.own is not None and d.scope is s:
                    walk(d.own)

        for m in self.mods.values():
            walk(m)
        return out
