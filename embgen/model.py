"""A small model of Emboss modules (independent of the compiler's IR) and a
printer that records where every definition was printed.

Expressions are tuples:
  ("n", int)                      numeric constant
  ("b", bool)                     boolean constant
  ("e", "Type.Path", "NAME")      enum value
  ("r", ("a", "b"))               field / parameter path
  ("op", op, lhs, rhs)            + - * == != < <= > >= && ||
  ("?:", c, t, f)
  ("max", [args])
  ("present", ("a",))             $present(a)
  ("ub", e) / ("lb", e)           $upper_bound / $lower_bound
  ("size", path_or_None, word)    f.$size_in_bytes / $size_in_bits ...
  ("tconst", "Type.Path", word)   Type.$size_in_bytes etc. or Type.constant_field
  ("next",)
  ("raw", text)                   verbatim text (fault injection)
"""


class Enum(object):
    kind = "enum"

    def __init__(self, name, values, is_signed=None, maximum_bits=None, enum_case=None, value_attrs=None):
        self.name = name
        self.values = list(values)  # [(NAME, int)]
        self.is_signed = is_signed
        self.maximum_bits = maximum_bits
        self.enum_case = enum_case
        self.value_attrs = value_attrs or {}
        self.line = None
        self.parent = None

    def signed(self):
        if self.is_signed is not None:
            return self.is_signed
        return any(v < 0 for _, v in self.values)

    def bits(self):
        return self.maximum_bits if self.maximum_bits is not None else 64


class Type(object):
    """Type of a physical field."""

    def __init__(self, kind, bits=None, explicit=False, name=None, args=None, dims=None, elem_explicit=True):
        self.kind = kind  # UInt Int Bcd Flag Float enum struct bits
        self.bits = bits  # element width in bits for scalars/enums (None for aggregates)
        self.explicit = explicit  # print ":bits"
        self.name = name  # referenced type name (may be dotted / alias-qualified)
        self.args = args or []
        self.dims = dims or []  # outermost first; None = "[]"
        self.target = None  # resolved Enum/Struct object (set by generator)

    def is_scalar(self):
        return self.kind in ("UInt", "Int", "Bcd", "Flag", "Float", "enum")


class Field(object):
    def __init__(self, name, start=None, size=None, typ=None, value=None, cond=None, abbr=None):
        self.name = name
        self.start = start
        self.size = size
        self.typ = typ
        self.value = value  # virtual field expression
        self.cond = cond
        self.abbr = abbr
        self.byte_order = None
        self.requires = None
        self.text_output = None
        self.anon = None  # list of member Fields for an anonymous bits
        self.inline = None  # inline Struct/Enum definition
        self.doc = None
        self.comment = None
        self.line = None
        self.extra_attrs = []  # raw attribute texts

    @property
    def is_virtual(self):
        return self.value is not None

    @property
    def is_anon(self):
        return self.anon is not None


class Struct(object):
    def __init__(self, kind, name, fields=None, params=None, subtypes=None):
        self.kind = kind  # struct | bits
        self.name = name
        self.fields = fields or []
        self.params = params or []  # [(name, Type)]
        self.subtypes = subtypes or []
        self.default_byte_order = None
        self.requires = None
        self.extra_attrs = []
        self.doc = None
        self.line = None
        self.parent = None

    def all_fields(self):
        """Fields as the view exposes them: anonymous-bits members are hoisted."""
        out = []
        for f in self.fields:
            out.append(f)
        return out


class Module(object):
    def __init__(self, name="m.emb"):
        self.name = name
        self.types = []
        self.imports = []  # [(file, alias)]
        self.default_byte_order = None
        self.namespace = None
        self.extra_attrs = []
        self.doc = None

    def find(self, path):
        parts = path.split(".")
        cur = None
        scope = self.types
        for p in parts:
            cur = next((t for t in scope if t.name == p), None)
            if cur is None:
                return None
            scope = getattr(cur, "subtypes", [])
        return cur


# ---------------------------------------------------------------------------
# printing
# ---------------------------------------------------------------------------

PREC = {"||": 1, "&&": 1, "==": 2, "!=": 2, "<": 2, "<=": 2, ">": 2, ">=": 2, "+": 3, "-": 3, "*": 4}


def expr_text(e, top=True):
    k = e[0]
    if k == "n":
        return str(e[1]) if e[1] >= 0 or top else "(%d)" % e[1]
    if k == "b":
        return "true" if e[1] else "false"
    if k == "e":
        return "%s.%s" % (e[1], e[2]) if e[1] else e[2]
    if k == "r":
        return ".".join(e[1])
    if k == "op":
        return "%s %s %s" % (_sub(e[2]), e[1], _sub(e[3]))
    if k == "?:":
        return "%s ? %s : %s" % (_sub(e[1]), _sub(e[2]), _sub(e[3]))
    if k == "max":
        return "$max(%s)" % ", ".join(expr_text(a) for a in e[1])
    if k == "present":
        return "$present(%s)" % ".".join(e[1])
    if k == "ub":
        return "$upper_bound(%s)" % expr_text(e[1])
    if k == "lb":
        return "$lower_bound(%s)" % expr_text(e[1])
    if k == "size":
        return ".".join(tuple(e[1] or ()) + (e[2],))
    if k == "tconst":
        return "%s.%s" % (e[1], e[2])
    if k == "next":
        return "$next"
    if k == "raw":
        return e[1]
    raise ValueError(e)


def _sub(e):
    if e[0] in ("op", "?:"):
        return "(" + expr_text(e) + ")"
    return expr_text(e, top=False)


def type_text(t):
    s = t.kind if t.kind in ("UInt", "Int", "Bcd", "Flag", "Float") else t.name
    if t.args:
        s += "(%s)" % ", ".join(expr_text(a) for a in t.args)
    if t.explicit and t.bits is not None:
        s += ":%d" % t.bits
    for d in t.dims:
        s += "[]" if d is None else "[%s]" % expr_text(d)
    return s


class Printer(object):
    def __init__(self, indent="  ", noisy=None):
        self.lines = []
        self.ind = indent
        self.rnd = noisy  # random.Random for noise or None

    def emit(self, depth, text, obj=None):
        if self.rnd is not None:
            r = self.rnd.random()
            if r < 0.08:
                self.lines.append("")
            elif r < 0.14:
                self.lines.append(self.ind * depth + "# comment " + str(len(self.lines)))
            if self.rnd.random() < 0.15:
                text += "  # trailing"
        self.lines.append(self.ind * depth + text)
        if obj is not None:
            obj.line = len(self.lines)

    def module(self, m):
        if m.doc:
            self.emit(0, "-- " + m.doc)
        for f, a in m.imports:
            self.emit(0, 'import "%s" as %s' % (f, a))
        if m.default_byte_order:
            self.emit(0, '[$default byte_order: "%s"]' % m.default_byte_order)
        if m.namespace:
            self.emit(0, '[(cpp) namespace: "%s"]' % m.namespace)
        for a in m.extra_attrs:
            self.emit(0, a)
        for t in m.types:
            self.typedef(t, 0)
        return "\n".join(self.lines) + "\n"

    def typedef(self, t, depth):
        if isinstance(t, Enum):
            self.emit(depth, "enum %s:" % t.name, t)
            self.enum_body(t, depth + 1)
        else:
            ps = ""
            if t.params:
                ps = "(%s)" % ", ".join("%s: %s" % (n, type_text(ty)) for n, ty in t.params)
            self.emit(depth, "%s %s%s:" % (t.kind, t.name, ps), t)
            self.struct_body(t, depth + 1)

    def enum_body(self, t, depth):
        if t.maximum_bits is not None:
            self.emit(depth, "[maximum_bits: %d]" % t.maximum_bits)
        if t.is_signed is not None:
            self.emit(depth, "[is_signed: %s]" % ("true" if t.is_signed else "false"))
        if t.enum_case:
            self.emit(depth, '[(cpp) $default enum_case: "%s"]' % t.enum_case)
        for n, v in t.values:
            extra = ""
            if n in t.value_attrs:
                extra = "  " + t.value_attrs[n]
            self.emit(depth, "%s = %s%s" % (n, v if not isinstance(v, tuple) else expr_text(v), extra))

    def struct_body(self, t, depth):
        if t.doc:
            self.emit(depth, "-- " + t.doc)
        if t.default_byte_order:
            self.emit(depth, '[$default byte_order: "%s"]' % t.default_byte_order)
        if t.requires is not None:
            self.emit(depth, "[requires: %s]" % expr_text(t.requires))
        for a in t.extra_attrs:
            self.emit(depth, a)
        for s in t.subtypes:
            self.typedef(s, depth)
        if not t.fields and not t.subtypes and t.requires is None and not t.default_byte_order and not t.extra_attrs and not t.doc:
            self.emit(depth, "-- empty")
        self.fields(t.fields, depth)

    def fields(self, fields, depth):
        i = 0
        while i < len(fields):
            f = fields[i]
            if f.cond is not None:
                # group consecutive fields with the identical condition object
                j = i
                while j < len(fields) and fields[j].cond is f.cond:
                    j += 1
                self.emit(depth, "if %s:" % expr_text(f.cond))
                for g in fields[i:j]:
                    self.field(g, depth + 1)
                i = j
            else:
                self.field(f, depth)
                i += 1

    def field(self, f, depth):
        if f.is_virtual:
            self.emit(depth, "let %s = %s" % (f.name, expr_text(f.value)), f)
            self.field_attrs(f, depth + 1)
            return
        loc = "%s [+%s]" % (getattr(f, "start_text", None) or expr_text(f.start), expr_text(f.size))
        abbr = " (%s)" % f.abbr if f.abbr else ""
        if f.is_anon:
            self.emit(depth, "%s  bits:" % loc, f)
            self.field_attrs(f, depth + 1)
            self.fields(f.anon, depth + 1)
            return
        if f.inline is not None:
            kind = "enum" if isinstance(f.inline, Enum) else f.inline.kind
            self.emit(depth, "%s  %s  %s%s:" % (loc, kind, f.name, abbr), f)
            if isinstance(f.inline, Enum):
                self.enum_body(f.inline, depth + 1)
            else:
                self.struct_body(f.inline, depth + 1)
            return
        self.emit(depth, "%s  %s  %s%s" % (loc, type_text(f.typ), f.name, abbr), f)
        self.field_attrs(f, depth + 1)

    def field_attrs(self, f, depth):
        if f.doc:
            self.emit(depth, "-- " + f.doc)
        if f.byte_order:
            self.emit(depth, '[byte_order: "%s"]' % f.byte_order)
        if f.requires is not None:
            self.emit(depth, "[requires: %s]" % expr_text(f.requires))
        if f.text_output:
            self.emit(depth, '[text_output: "%s"]' % f.text_output)
        for a in f.extra_attrs:
            self.emit(depth, a)


def print_module(m, noisy=None, indent="  "):
    return Printer(indent=indent, noisy=noisy).module(m)


def inline_type_name(field_name):
    """Emboss derives the inline type's name from the field name: foo_bar -> FooBar."""
    return "".join(p[:1].upper() + p[1:] for p in field_name.split("_"))
