"""Semantic generators: build embgen.model modules that the compiler is expected
to accept, with full knowledge of their meaning (for embref).

All choices come from a random.Random seeded by a Hypothesis draw.
"""

import random

from embgen import model as M

SMALL = [0, 1, 2, 3, 4, 5, 8, 16, 100, 255]


class Env(object):
    """Names visible while generating one struct."""

    def __init__(self):
        self.ints = []  # (path tuple, max value) of small unsigned int fields/params
        self.bools = []  # paths of Flag fields / boolean virtuals
        self.enums = []  # (path, Enum, enum path text)
        self.all_fields = []  # names of all fields (for $present)


class Gen(object):
    def __init__(self, rnd, profile="layout"):
        self.rnd = rnd
        self.profile = profile
        self.n = 0
        self.module = M.Module("m.emb")
        self.enums = []  # (Enum, path text)
        self.structs = []  # completed Struct objects usable as field types
        self.bitses = []
        self.features = set()

    def name(self, prefix="f"):
        self.n += 1
        return "%s%d" % (prefix, self.n)

    def tname(self, prefix="Ty"):
        self.n += 1
        return "%s%dx" % (prefix, self.n)

    # ---- enums ---------------------------------------------------------------------
    def gen_enum(self, name=None, maxv=255):
        r = self.rnd
        k = r.randrange(2, 5)
        vals = sorted(r.sample(range(0, min(maxv, 12) + 1), min(k, min(maxv, 12) + 1)))
        names = ["AA", "BB", "CC", "DD", "EE_1", "X_Y"]
        e = M.Enum(name or self.tname("En"), [(names[i], v) for i, v in enumerate(vals)])
        if r.random() < 0.45:
            e.enum_case = r.choice(["kCamelCase", "kCamelCase, SHOUTY_CASE", "SHOUTY_CASE, kCamelCase"])
            self.features.add("enum_case")
        return e

    # ---- expressions -----------------------------------------------------------------
    def int_expr(self, env, depth=1, maxv=300):
        """Small non-negative integer expression over env; returns (expr, upper bound)."""
        r = self.rnd
        if depth <= 0 or not env.ints or r.random() < 0.3:
            if env.ints and r.random() < 0.7:
                p, mx = r.choice(env.ints)
                return ("r", p), mx
            c = r.choice(SMALL[:7])
            return ("n", c), c
        k = r.random()
        a, am = self.int_expr(env, depth - 1)
        if k < 0.45:
            b, bm = self.int_expr(env, depth - 1)
            return ("op", "+", a, b), am + bm
        if k < 0.65:
            # strides that are not powers of two (12, 20, 10, 6) make the offset's known modulus exceed
            # the widest access without being a multiple of it: alignment claims must reduce it by gcd
            c = r.choice([2, 3, 4, 8, 2, 3, 4, 8, 5, 6, 10, 12, 20])
            return ("op", "*", a, ("n", c)), am * c
        if k < 0.8:
            b, bm = self.int_expr(env, depth - 1)
            return ("max", [a, b]), max(am, bm)
        if k < 0.9 and (env.bools or env.ints):
            c = self.bool_expr(env, 0)
            b, bm = self.int_expr(env, depth - 1)
            return ("?:", c, a, b), max(am, bm)
        return a, am

    def bool_expr(self, env, depth=1):
        r = self.rnd
        choices = []
        if env.ints:
            choices += ["cmp"] * 4
        if env.bools:
            choices += ["flag"] * 2
        if env.enums:
            choices += ["enum"] * 3
        if env.all_fields and self.profile == "layout":
            choices += ["present"]
        if not choices:
            return ("b", r.random() < 0.7)
        if depth > 0 and r.random() < 0.3:
            a = self.bool_expr(env, depth - 1)
            b = self.bool_expr(env, depth - 1)
            return ("op", r.choice(["&&", "||"]), a, b)
        c = r.choice(choices)
        if c == "cmp":
            p, mx = r.choice(env.ints)
            op = r.choice(["==", "==", "!=", "<", "<=", ">", ">="])
            k = r.choice([0, 1, 2, 3, 4, 8, 100])
            if r.random() < 0.2:
                return ("op", op, ("n", k), ("r", p))
            return ("op", op, ("r", p), ("n", k))
        if c == "flag":
            return ("r", r.choice(env.bools))
        if c == "enum":
            p, en, etext = r.choice(env.enums)
            nm = r.choice(en.values)[0]
            return ("op", r.choice(["==", "==", "!="]), ("r", p), ("e", etext, nm))
        return ("present", (r.choice(env.all_fields),))

    def upper(self, e, env):
        """Structural upper bound of a non-negative integer expression."""
        k = e[0]
        if k == "n":
            return e[1]
        if k == "r":
            for p, mx in env.ints:
                if p == e[1]:
                    return mx
            return float("inf")
        if k == "op" and e[1] == "+":
            return self.upper(e[2], env) + self.upper(e[3], env)
        if k == "op" and e[1] == "*":
            return self.upper(e[2], env) * self.upper(e[3], env)
        if k == "max":
            return max(self.upper(a, env) for a in e[1])
        if k == "?:":
            return max(self.upper(e[2], env), self.upper(e[3], env))
        return float("inf")

    # ---- bits types ----------------------------------------------------------------------
    def gen_bits_members(self, nbits, env_for_parent=None, prefix="b"):
        """Members partitioning (mostly) a container of nbits; the top bit is always covered."""
        r = self.rnd
        fields = []
        pos = 0
        local_env = Env()
        while pos < nbits:
            remaining = nbits - pos
            w = min(remaining, r.choice([1, 1, 2, 3, 4, 5, 7, 8, 9, 12, 16, 24, 31, 32, 33]))
            if remaining - w < 0:
                w = remaining
            kind = r.choice(["UInt", "UInt", "UInt", "Int", "Flag", "Bcd", "enum"])
            if kind == "Flag":
                w = 1
            typ = M.Type(kind, w, explicit=r.random() < 0.3)
            if kind == "enum":
                if not self.enums or w < 4:
                    typ = M.Type("UInt", w)
                else:
                    en, etext = r.choice(self.enums)
                    typ = M.Type("enum", w, explicit=r.random() < 0.3, name=etext)
                    typ.target = en
            if typ.kind == "Flag":
                typ.explicit = False
            f = M.Field(self.name(prefix), ("n", pos), ("n", w), typ)
            if r.random() < 0.15 and local_env.ints:
                p, mx = r.choice(local_env.ints)
                f.cond = ("op", r.choice(["==", "!=", "<"]), ("r", p), ("n", r.choice([0, 1, 2])))
                self.features.add("conditional-in-bits")
            fields.append(f)
            if typ.kind == "UInt" and w <= 16:
                local_env.ints.append(((f.name,), 2**w - 1))
            if r.random() < 0.12 and pos + w < nbits:
                pos += r.choice([1, 2])  # gap
            pos += w
            if r.random() < 0.1 and len(fields) >= 2:
                # an overlapping member
                ow = r.choice([1, 2, 4])
                op = r.randrange(0, max(1, nbits - ow))
                fields.append(M.Field(self.name(prefix), ("n", op), ("n", ow), M.Type("UInt", ow)))
                self.features.add("overlap")
        # make sure the container's top bit is covered so the type's size equals nbits
        if max(f.start[1] + f.size[1] for f in fields) < nbits:
            top = max(f.start[1] + f.size[1] for f in fields)
            fields.append(M.Field(self.name(prefix), ("n", top), ("n", nbits - top), M.Type("UInt", nbits - top)))
        # first field must be unconditional so that sizes are static? (no: keep, size uses $max)
        for f in fields:
            if f.cond is not None:
                # conditional members make the bits type's size dynamic; keep the top member unconditional
                pass
        return fields

    def gen_bits_type(self, nbits):
        st = M.Struct("bits", self.tname("Bi"))
        st.fields = self.gen_bits_members(nbits)
        # a dynamically sized bits type cannot be used in a fixed field: drop conditions on the top member
        top = max(st.fields, key=lambda f: f.start[1] + f.size[1])
        top.cond = None
        st.static_bits = nbits
        return st

    # ---- structs ------------------------------------------------------------------------------
    def scalar_type(self, nbytes):
        r = self.rnd
        bits = nbytes * 8
        kind = r.choice(["UInt", "UInt", "UInt", "Int", "Int", "Bcd"])
        if nbytes in (4, 8) and r.random() < 0.12:
            kind = "Float"
        return M.Type(kind, bits, explicit=r.random() < 0.25)

    def gen_struct(self, name=None, allow_params=True, depth=0):
        r = self.rnd
        st = M.Struct("struct", name or self.tname("St"))
        env = Env()
        if allow_params and r.random() < 0.25:
            for _ in range(r.choice([1, 1, 2])):
                pn = self.name("p")
                if self.enums and r.random() < 0.3:
                    en, etext = r.choice(self.enums)
                    pt = M.Type("enum", None, name=etext)
                    pt.target = en
                    pt.cpp_name = None
                    env.enums.append(((pn,), en, etext))
                else:
                    pt = M.Type("UInt", 8, explicit=True)
                    env.ints.append(((pn,), 255))
                st.params.append((pn, pt))
            self.features.add("parameters")
        if r.random() < 0.3:
            # mostly the opposite of the module's default: a default that leaks between scopes
            # is only observable when the two differ
            other = "BigEndian" if self.module.default_byte_order == "LittleEndian" else "LittleEndian"
            st.default_byte_order = other if r.random() < 0.75 else r.choice(["LittleEndian", "BigEndian"])
            self.features.add("struct-default-byte-order")
        nfields = r.randrange(2, 9)
        cursor = 0  # static cursor, or None once layout became dynamic
        dyn_prev = None  # (start expr, size expr) of the previous physical field
        cond_group = None
        group_left = 0
        i = 0
        while i < nfields:
            i += 1
            # conditions: consecutive fields may share one `if` block
            if group_left > 0:
                group_left -= 1
                cond = cond_group
            elif r.random() < 0.3 and (env.ints or env.bools or env.enums):
                cond = self.bool_expr(env, 1)
                cond_group = cond
                group_left = r.choice([0, 0, 1, 2])
                self.features.add("conditional")
            else:
                cond = None
            k = r.random()
            if k < 0.14 and (env.ints or env.bools):
                f = self.gen_virtual(env)
                # constant virtual fields are static constexpr members; whether a
                # conditional one is "present" is not specified, so they stay unconditional
                f.cond = cond if has_ref(f.value) else None
                if f.cond is None and cond is not None:
                    group_left = 0
                st.fields.append(f)
                continue
            # start expression
            start_text = None
            if cursor is not None:
                start = ("n", cursor)
                if dyn_prev is not None and r.random() < 0.2 and dyn_prev[0][0] == "n" and dyn_prev[1][0] == "n":
                    # $next is the end of the textually previous physical field,
                    # which is not the cursor when fields overlap or leave gaps
                    start = ("n", dyn_prev[0][1] + dyn_prev[1][1])
                    start_text = "$next"
                    self.features.add("$next")
                elif r.random() < 0.07 and cursor > 0:
                    start = ("n", r.randrange(0, cursor))  # overlapping field
                    self.features.add("overlap")
                elif r.random() < 0.07:
                    start = ("n", cursor + r.choice([1, 2, 3]))  # padding gap
                    self.features.add("gap")
            else:
                if r.random() < 0.6:
                    start = ("op", "+", dyn_prev[0], dyn_prev[1])
                    start_text = "$next"
                    self.features.add("$next")
                else:
                    e, mx = self.int_expr(env, 1)
                    start = e
                    self.features.add("dynamic-offset")
            if cursor is not None and r.random() < 0.08 and env.ints and start_text is None:
                e, mx = self.int_expr(env, 1)
                start = e
                cursor = None
                self.features.add("dynamic-offset")
            f, size_static = self.gen_physical(st, env, start, depth)
            f.cond = cond
            if start_text:
                f.start_text = start_text
                if dyn_prev is None:
                    f.start_text = None
            st.fields.append(f)
            f.end_max = self.upper(f.start, env) + self.upper(f.size, env)
            dyn_prev = (f.start, f.size)
            if cursor is not None and f.start[0] == "n" and size_static is not None:
                cursor = max(cursor, f.start[1] + size_static)
            else:
                cursor = None
            # register the field for later expressions (only unconditional-or-not: any; refs to
            # absent fields simply evaluate to unknown)
            self.register(env, f)
        # a "switch" block: several fields guarded by `tag == constant` with repeated
        # constants (the back end groups these into one switch in Ok(); fields three
        # and later of one case, reversed operands and interleaved other conditions are
        # the interesting shapes), whose members can be present but not Ok
        tags = [f for f in st.fields if not f.is_virtual and not f.is_anon and f.cond is None and f.typ is not None and not f.typ.dims and f.typ.kind == "UInt" and f.typ.bits == 8 and f.start[0] == "n" and f.requires is None]
        if tags and r.random() < 0.45:
            tag = r.choice(tags)
            base = cursor if cursor is not None else 24
            c1, c2 = r.sample([0, 1, 2, 3, 4, 5], 2)
            for j in range(r.randrange(3, 7)):
                c = c1 if r.random() < 0.7 else c2
                kk = r.random()
                if kk < 0.75:
                    cond = ("op", "==", ("r", (tag.name,)), ("n", c)) if r.random() < 0.8 else ("op", "==", ("n", c), ("r", (tag.name,)))
                elif kk < 0.9:
                    cond = ("op", r.choice(["!=", "<", ">="]), ("r", (tag.name,)), ("n", c))
                else:
                    cond = None
                kind = r.choice(["Bcd", "UInt", "UInt", "Int"])
                f = M.Field(self.name("f"), ("n", base + (j if r.random() < 0.8 else 0)), ("n", 1), M.Type(kind, 8))
                if kind != "Bcd" and r.random() < 0.85:
                    # only requirements that some byte value violates and some satisfies
                    f.requires = ("op", r.choice(["<", "<=", "!=", ">="]), ("r", ("this",)), ("n", r.choice([1, 5, 100, 200]) if kind == "UInt" else r.choice([-1, 0, 5, 100])))
                f.cond = cond
                f.end_max = base + 8
                st.fields.append(f)
                self.register(env, f)
            self.features.add("switch-block")
            self.features.add("conditional")
            self.features.add("requires")
        # virtual fields at the boundaries of the C++ integer types: the back end
        # picks int32/uint32/int64/uint64 from the inferred range
        wide = []
        for f in st.fields:
            for g in [f] + (f.anon or []):
                t = g.typ
                if t is not None and not g.is_virtual and not t.dims and t.kind in ("UInt", "Int") and t.bits in (31, 32, 33, 63, 64) and g.requires is None and (g is f or f.cond is None):
                    wide.append(g)
        for g in wide[:2]:
            if r.random() < 0.6:
                k = r.choice([0, 1, 1, 2])
                if g.typ.bits == 64 and g.typ.kind == "UInt":
                    k = 0
                op = "-" if (g.typ.kind == "Int" and r.random() < 0.5) else "+"
                v = M.Field(self.name("v"), value=("op", op, ("r", (g.name,)), ("n", k)))
                v.cond = g.cond
                st.fields.append(v)
                env.all_fields.append(v.name)
                self.features.add("boundary-virtual")
        # forward references: a conditional field declared BEFORE the field its condition reads
        # (e.g. a trailing tag).  Dependency order then differs from source order, which is what
        # Ok(), text output and text input iterate in.
        late = [f for f in st.fields if not f.is_virtual and not f.is_anon and f.cond is None and f.typ is not None and not f.typ.dims and f.typ.kind == "UInt" and f.typ.bits == 8 and f.start[0] == "n" and f.requires is None]
        if late and r.random() < 0.4:
            tagf = late[-1]
            base = (cursor if cursor is not None else 24) + 8
            nfwd = r.choice([1, 1, 2])
            for j in range(nfwd):
                c = r.choice([0, 1, 1, 2, 2, 3])
                f = M.Field(self.name("f"), ("n", base + 2 * j), ("n", r.choice([1, 2])), None)
                f.typ = M.Type("UInt", 8 * f.size[1])
                if f.size[1] > 1 and not self.has_default_bo(st):
                    f.byte_order = r.choice(["LittleEndian", "BigEndian"])
                f.cond = ("op", r.choice(["==", "==", "==", "!=", "<="]), ("r", (tagf.name,)), ("n", c))
                f.end_max = base + 2 * j + 2
                idx = st.fields.index(tagf)
                # never directly before a `$next` field: $next is the end of the textually previous physical field
                spots = []
                for pos_ in range(0, idx + 1):
                    nxt = next((x for x in st.fields[pos_:] if not x.is_virtual), None)
                    if nxt is None or getattr(nxt, "start_text", None) is None:
                        spots.append(pos_)
                if not spots:
                    break
                st.fields.insert(r.choice(spots), f)
                env.all_fields.append(f.name)
            self.features.add("forward-reference")
            self.features.add("conditional")
        # wide arithmetic: sums, differences and products of multi-byte fields whose operands fit a
        # narrower C++ type than the result (the back end must compute in the result's type)
        ints = []
        for f in st.fields:
            for g in [f] + (f.anon or []):
                t = g.typ
                if t is not None and not g.is_virtual and not t.dims and t.kind in ("UInt", "Int") and t.bits and g.requires is None and (g is f or f.cond is None):
                    lo, hi = (0, 2**t.bits - 1) if t.kind == "UInt" else (-(2 ** (t.bits - 1)), 2 ** (t.bits - 1) - 1)
                    ints.append((g, lo, hi))
        if len(ints) >= 2 and r.random() < 0.5:
            for _ in range(r.choice([1, 2, 3])):
                (a, alo, ahi), (b, blo, bhi) = r.sample(ints, 2)
                op = r.choice(["*", "*", "+", "-"])
                if op == "*":
                    corners = [alo * blo, alo * bhi, ahi * blo, ahi * bhi]
                elif op == "+":
                    corners = [alo + blo, ahi + bhi]
                else:
                    corners = [alo - bhi, ahi - blo]
                lo, hi = min(corners), max(corners)
                # the compiler's 64-bit gate: operands and result fit int64 together, or uint64 together
                fits_signed = lo >= -(2**63) and hi <= 2**63 - 1 and ahi <= 2**63 - 1 and bhi <= 2**63 - 1
                fits_unsigned = lo >= 0 and hi <= 2**64 - 1 and alo >= 0 and blo >= 0
                if not (fits_signed or fits_unsigned):
                    continue
                v = M.Field(self.name("v"), value=("op", op, ("r", (a.name,)), ("r", (b.name,))))
                # exists exactly when both operands exist (an absent operand makes the value unknown anyway)
                conds = [x.cond for x in (a, b) if x.cond is not None]
                v.cond = conds[0] if len(conds) == 1 else (("op", "&&", conds[0], conds[1]) if conds else None)
                st.fields.append(v)
                env.all_fields.append(v.name)
                self.features.add("wide-arithmetic")
        if r.random() < 0.25:
            c = r.choice([2**31 - 1, 2**31, 2**32 - 1, 2**32, 2**63 - 1, 2**63, 2**64 - 1, -(2**31), -(2**31) - 1, -(2**63)])
            v = M.Field(self.name("v"), value=("n", c))
            st.fields.append(v)
            self.features.add("boundary-constant")
            if env.bools and r.random() < 0.6 and abs(c) < 2**63:
                v2 = M.Field(self.name("v"), value=("?:", ("r", r.choice(env.bools)), ("n", c), ("n", c - 1)))
                st.fields.append(v2)
        if r.random() < 0.15 and len(env.ints) >= 2:
            a, b = r.sample(env.ints, 2)
            st.requires = ("op", r.choice(["<=", "!=", ">="]), ("r", a[0]), ("r", b[0]))
            self.features.add("struct-requires")
        for f in st.fields:
            if f.inline is not None:
                f.inline.parent = st
        return st

    def register(self, env, f):
        if f.is_anon:
            for g in f.anon:
                self.register(env, g)
            return
        env.all_fields.append(f.name)
        t = f.typ
        if t is None or t.dims:
            return
        if t.kind == "UInt" and t.bits <= 16 and f.requires is None:
            env.ints.append(((f.name,), 2**t.bits - 1))
        elif t.kind == "Flag":
            env.bools.append((f.name,))
        elif t.kind == "enum":
            env.enums.append(((f.name,), t.target, t.name))
        elif t.kind in ("struct", "bits") and not t.dims:
            target = f.inline if f.inline is not None and not isinstance(f.inline, M.Enum) else t.target
            if target is not None and self.rnd.random() < 0.6:
                for g in target.fields:
                    if not g.is_virtual and not g.is_anon and g.typ is not None and g.typ.kind == "UInt" and not g.typ.dims and g.typ.bits <= 16 and g.requires is None:
                        env.ints.append(((f.name, g.name), 2 ** g.typ.bits - 1))
                        self.features.add("nested-reference")
                        break

    def gen_virtual(self, env):
        r = self.rnd
        k = r.random()
        f = M.Field(self.name("v"))
        if k < 0.25 and env.ints:
            tgt = r.choice(env.ints)
            f.value = ("r", tgt[0])  # alias
            self.features.add("alias")
            env.ints.append(((f.name,), tgt[1]))
        elif k < 0.4 and env.bools + env.ints:
            f.value = self.bool_expr(env, 1)
            env.bools.append((f.name,))
            self.features.add("virtual-bool")
        elif k < 0.5:
            f.value = ("n", r.choice(SMALL))
            env.ints.append(((f.name,), 255))
            self.features.add("virtual-constant")
        else:
            e, mx = self.int_expr(env, 2)
            f.value = e
            if mx < 60000:
                env.ints.append(((f.name,), mx))
            if r.random() < 0.2:
                f.requires = ("op", r.choice(["<", "<=", "!="]), ("r", ("this",)), ("n", r.choice([1, 3, 10, 100])))
                self.features.add("virtual-requires")
            self.features.add("virtual-int")
        env.all_fields.append(f.name)
        return f

    def gen_physical(self, st, env, start, depth):
        """Returns (Field, static size in bytes or None)."""
        r = self.rnd
        k = r.random()
        name = self.name("f")
        abbr = None
        if r.random() < 0.08:
            abbr = self.name("ab")
        # ---- arrays
        if k < 0.16:
            return self.gen_array(env, start, name)
        # ---- nested struct
        if k < 0.30 and self.structs and depth < 2:
            target = r.choice(self.structs)
            t = M.Type("struct", name=target.name)
            t.target = target
            for pn, pt in target.params:
                if pt.kind == "enum":
                    t.args.append(("e", pt.name, r.choice(pt.target.values)[0]))
                else:
                    e, mx = self.int_expr(env, 1)
                    if mx > 255:
                        e = ("n", r.choice([0, 1, 2, 5]))
                    t.args.append(e)
            ssize = getattr(target, "static_size", None)
            if ssize is not None:
                f = M.Field(name, start, ("n", ssize), t, abbr=abbr)
                self.features.add("nested-struct")
                return f, ssize
            # dynamically sized struct: give it a generous or a dynamic size
            if env.ints and r.random() < 0.5:
                e, mx = self.int_expr(env, 0)
                f = M.Field(name, start, e, t, abbr=abbr)
                self.features.add("nested-dynamic-struct")
                return f, None
            sz = r.choice([4, 8, 16, 40])
            f = M.Field(name, start, ("n", sz), t, abbr=abbr)
            self.features.add("nested-dynamic-struct")
            return f, sz
        # ---- bits (named, inline, anonymous)
        if k < 0.48:
            nbytes = r.choice([1, 1, 2, 2, 4, 8, 3])
            kk = r.random()
            if kk < 0.4:
                f = M.Field(name, start, ("n", nbytes), None)
                f.anon = self.gen_bits_members(nbytes * 8)
                for g in f.anon:
                    g.cond = None if r.random() < 0.8 else g.cond
                top = max(f.anon, key=lambda g: g.start[1] + g.size[1])
                top.cond = None
                f.typ = M.Type("bits", name=None)
                f.typ.target = M.Struct("bits", "EmbossReservedAnonymous", fields=f.anon)
                f.typ.target.static_bits = nbytes * 8
                self.features.add("anonymous-bits")
            elif kk < 0.7 and self.bitses and any(b.static_bits == nbytes * 8 for b in self.bitses):
                target = r.choice([b for b in self.bitses if b.static_bits == nbytes * 8])
                t = M.Type("bits", name=target.name)
                t.target = target
                f = M.Field(name, start, ("n", nbytes), t, abbr=abbr)
                self.features.add("named-bits")
            else:
                target = self.gen_bits_type(nbytes * 8)
                target.name = M.inline_type_name(name)
                t = M.Type("bits", name=target.name)
                t.target = target
                f = M.Field(name, start, ("n", nbytes), t, abbr=abbr)
                f.inline = target
                self.features.add("inline-bits")
            if f.inline is None and nbytes > 1 and (r.random() < 0.3 or not self.has_default_bo(st)):
                f.byte_order = r.choice(["LittleEndian", "BigEndian"])
            return f, nbytes
        # ---- enum field
        if k < 0.58 and self.enums:
            en, etext = r.choice(self.enums)
            nbytes = r.choice([1, 1, 2, 4])
            t = M.Type("enum", nbytes * 8, explicit=r.random() < 0.3, name=etext)
            t.target = en
            f = M.Field(name, start, ("n", nbytes), t, abbr=abbr)
            if nbytes > 1 and (r.random() < 0.3 or not self.has_default_bo(st)):
                f.byte_order = r.choice(["LittleEndian", "BigEndian"])
            self.features.add("enum-field")
            return f, nbytes
        # ---- scalar
        nbytes = r.choice([1, 1, 1, 2, 2, 4, 8, 3, 5, 6, 7])
        t = self.scalar_type(nbytes)
        if t.kind == "Float" and nbytes not in (4, 8):
            t = M.Type("UInt", nbytes * 8)
        f = M.Field(name, start, ("n", nbytes), t, abbr=abbr)
        if nbytes > 1 and (r.random() < 0.3 or not self.has_default_bo(st)):
            f.byte_order = r.choice(["LittleEndian", "BigEndian"])
        elif nbytes == 1 and r.random() < 0.05:
            f.byte_order = "Null"
        if t.kind in ("UInt", "Int") and r.random() < 0.12:
            f.requires = ("op", r.choice(["<", "<=", "!=", ">="]), ("r", ("this",)), ("n", r.choice([0, 1, 5, 100, 200])))
            self.features.add("requires")
        return f, nbytes

    def has_default_bo(self, st):
        return bool(st.default_byte_order or self.module.default_byte_order)

    def gen_array(self, env, start, name):
        r = self.rnd
        k = r.random()
        self.features.add("array")
        st_targets = [s for s in self.structs if getattr(s, "static_size", None) and not s.params]
        if k < 0.25 and st_targets:
            target = r.choice(st_targets)
            n = r.choice([1, 2, 3])
            t = M.Type("struct", name=target.name, dims=[("n", n)])
            t.target = target
            return M.Field(name, start, ("n", n * target.static_size), t), n * target.static_size
        bit_targets = [b for b in self.bitses if getattr(b, "static_bits", None) in (8, 16, 32) and all(f.cond is None for f in b.fields)]
        if 0.25 <= k < 0.37 and bit_targets:
            # arrays of bits types: one- or few-byte aggregate elements, possibly with bits no field covers
            target = r.choice(bit_targets)
            nb = target.static_bits // 8
            n = r.choice([1, 2, 3, 4])
            t = M.Type("bits", name=target.name, dims=[("n", n)])
            t.target = target
            f = M.Field(name, start, ("n", n * nb), t)
            if nb > 1 and not self.has_default_bo_any():
                f.byte_order = r.choice(["LittleEndian", "BigEndian"])
            self.features.add("array-of-bits")
            return f, n * nb
        ebytes = r.choice([1, 1, 1, 2, 4])
        kind = r.choice(["UInt", "UInt", "Int", "Bcd"])
        if kind == "Bcd":
            self.features.add("array-of-bcd")
        if k < 0.6 or not env.ints:
            n = r.choice([1, 2, 3, 4, 8])
            dims = [("n", n)]
            total = n * ebytes
            if r.random() < 0.2 and n <= 4:
                # square, so that the order in which dimensions nest (which the
                # documentation does not specify) cannot matter
                dims = [("n", n), ("n", n)]
                total = n * n * ebytes
                self.features.add("array-2d")
            elif r.random() < 0.2:
                dims[0] = None  # automatic length
            t = M.Type(kind, ebytes * 8, explicit=True, dims=dims)
            f = M.Field(name, start, ("n", total), t)
            if ebytes > 1 and not self.has_default_bo_any():
                f.byte_order = r.choice(["LittleEndian", "BigEndian"])
            return f, total
        # dynamically sized
        p, mx = r.choice([x for x in env.ints])
        self.features.add("dynamic-array")
        if ebytes == 1:
            dim = None if r.random() < 0.4 else ("r", p)
            t = M.Type(kind, 8, explicit=True, dims=[dim])
            return M.Field(name, start, ("r", p), t), None
        size = ("op", "*", ("r", p), ("n", ebytes))
        dim = None if r.random() < 0.4 else ("r", p)
        t = M.Type(kind, ebytes * 8, explicit=True, dims=[dim])
        f = M.Field(name, start, size, t)
        if not self.has_default_bo_any():
            f.byte_order = r.choice(["LittleEndian", "BigEndian"])
        return f, None

    def has_default_bo_any(self):
        return bool(self.module.default_byte_order)

    # ---- module ---------------------------------------------------------------------------
    def gen_module(self):
        r = self.rnd
        m = self.module
        m.namespace = r.choice(["v::ns", "vns", "a::b::c"])
        m.default_byte_order = r.choice(["LittleEndian", "BigEndian", "LittleEndian"])
        for _ in range(r.choice([0, 1, 1, 2])):
            e = self.gen_enum()
            m.types.append(e)
            self.enums.append((e, e.name))
        for _ in range(r.choice([0, 1, 1])):
            b = self.gen_bits_type(r.choice([8, 16, 32]))
            m.types.append(b)
            self.bitses.append(b)
        if r.random() < 0.35:
            # a one-byte bits type with reserved bits in the middle: as an array element it is a
            # byte whose value is NOT the whole byte
            gb = M.Struct("bits", self.tname("Bi"))
            lo = r.choice([1, 2, 3])
            gb.fields.append(M.Field(self.name("b"), ("n", 0), ("n", lo), M.Type("UInt", lo)))
            gb.fields.append(M.Field(self.name("b"), ("n", 7), ("n", 1), M.Type(r.choice(["Flag", "UInt"]), 1)))
            gb.static_bits = 8
            m.types.append(gb)
            self.bitses.append(gb)
            self.features.add("reserved-bits-type")
        for _ in range(r.choice([1, 2, 2, 3, 4])):
            st = self.gen_struct()
            st.static_size = struct_static_size(st)
            m.types.append(st)
            self.structs.append(st)
        for t in m.types:
            set_parents(t, None)
        return m


def has_ref(e):
    if e[0] in ("r", "present", "size"):
        return True
    if e[0] == "max":
        return any(has_ref(a) for a in e[1])
    return any(has_ref(a) for a in e[1:] if isinstance(a, tuple) and a and isinstance(a[0], str))


def set_parents(t, parent):
    t.parent = parent
    if isinstance(t, M.Enum):
        return
    for s in t.subtypes:
        set_parents(s, t)
    for f in t.fields:
        for g in [f] + (f.anon or []):
            if g.inline is not None:
                set_parents(g.inline, t)


def struct_static_size(st):
    """Static size as the compiler infers it: the size expression
    $max(0, cond ? end : 0, ...) is constant when the largest certain end is at
    least every possible end."""
    lo = 0
    hi = 0
    for f in st.fields:
        if f.is_virtual:
            continue
        static = f.start[0] == "n" and f.size[0] == "n"
        if static:
            end = f.start[1] + f.size[1]
            hi = max(hi, end)
            if f.cond is None:
                lo = max(lo, end)
        else:
            hi = max(hi, getattr(f, "end_max", float("inf")))
    return lo if lo == hi else None


def layout_module(rnd):
    g = Gen(rnd, "layout")
    m = g.gen_module()
    return m, g.features


def module_text(m, noisy=None):
    return M.print_module(m, noisy=noisy)


# ---- sources for other checks --------------------------------------------------------

def valid_source_set(rnd):
    m, _ = layout_module(rnd)
    return {"m.emb": module_text(m)}, "m.emb"


def noisy_program_text(rnd):
    m, _ = layout_module(rnd)
    return M.print_module(m, noisy=rnd, indent=rnd.choice(["  ", " ", "    ", "\t"]))


SEM_MUTATIONS = [
    ("UInt", "Int"), ("UInt", "Flag"), ("UInt", "Bcd"), ("[+1]", "[+0]"), ("[+2]", "[+9]"), ("[+1]", "[+65]"), (" == ", " + "), (" && ", " * "),
    ("this", "that"), ("$next", "$max"), (":8", ":9"), (":16", ":64"), ("LittleEndian", "MiddleEndian"), ("true", "1"), (" < ", " && "),
    ("struct ", "bits "), ("bits:", "struct:"), ("let ", "let $"), ("$present(", "$upper_bound("), ("requires", "require"), ("[]", "[][]"),
    ("(", "(("), (")", ""), (" ? ", " : "), ("$default ", ""), ("byte_order", "text_output"), ("0 [+", "$next [+"), (" + ", " - "), (" * ", " * 1000000000000 * "),
    ("$size_in_bytes", "$size_in_bits"), ("enum ", "external "), ("this", "$static_size_in_bits"), ("this", "$is_statically_sized"), ("1", "$static_size_in_bits"),
    ("true", "$is_statically_sized"), (" < ", " < $static_size_in_bits + "), ("0 [+", "$static_size_in_bits [+"), ("this", "$next"), ("this", "$size_in_bytes"), ("1", "18446744073709551616"), ("AA", "BB"), ("En", "St"), ("f", "p"), ("v", "f"),
]


def c16_source(rnd):
    """(class, files, main): a model program, valid or with one semantic mutation."""
    m, _ = layout_module(rnd)
    text = module_text(m)
    if rnd.random() < 0.75:
        for _ in range(rnd.choice([1, 1, 2])):
            a, b = rnd.choice(SEM_MUTATIONS)
            idxs = [i for i in range(len(text)) if text.startswith(a, i)]
            if not idxs:
                continue
            i = rnd.choice(idxs)
            text = text[:i] + b + text[i + len(a) :]
        return "model-mutated", {"m.emb": text}, "m.emb"
    return "model-valid", {"m.emb": text}, "m.emb"


def import_pair(rnd):
    """(class, files, main): a main module that uses types, enum values and constant
    virtual fields of an imported model module; one of the two files may be mutated."""
    m, _ = layout_module(rnd)
    # give the imported module some constants to refer to
    for t in m.types:
        if isinstance(t, M.Struct) and t.kind == "struct" and rnd.random() < 0.7:
            f = M.Field("k%d" % rnd.randrange(1000), value=rnd.choice([("n", 7), ("op", "+", ("n", 1), ("n", 2)), ("b", True), ("op", "*", ("n", 3), ("n", 5))]))
            t.fields.append(f)
    imp_text = module_text(m)
    lines = ['import "imp.emb" as imp', '[$default byte_order: "LittleEndian"]', "struct Main:", "  0 [+1]  UInt  a"]
    pos = 1
    for t in m.types:
        if isinstance(t, M.Enum):
            lines.append("  %d [+1]  imp.%s  e%d" % (pos, t.name, pos))
            lines.append("  if e%d == imp.%s.%s:" % (pos, t.name, t.values[0][0]))
            lines.append("    %d [+1]  UInt  c%d" % (pos + 1, pos))
            pos += 2
        elif t.kind == "struct":
            ss = getattr(t, "static_size", None)
            if ss and not t.params:
                lines.append("  %d [+%d]  imp.%s  s%d" % (pos, ss, t.name, pos))
                pos += ss
            elif t.params:
                # a parameterised structure of the other file, used with the right or a wrong number / kind of
                # arguments: the diagnostics then point into BOTH files
                n = len(t.params)
                k2 = rnd.random()
                if k2 < 0.35:
                    args = ["a"] * n
                elif k2 < 0.6:
                    args = ["a"] * rnd.choice([max(0, n - 1), n + 1])
                else:
                    args = [rnd.choice(["a", "true", "300", "a == 1", "a + a"]) for _ in range(n)]
                lines.append("  %d [+%d]  imp.%s%s  q%d" % (pos, ss or 8, t.name, ("(%s)" % ", ".join(args)) if args else "", pos))
                pos += ss or 8
            for f in t.fields:
                if f.is_virtual and not has_ref(f.value):
                    lines.append("  let v%d = imp.%s.%s" % (pos, t.name, f.name))
                    lines.append("  let w%d = imp.%s.%s + a" % (pos, t.name, f.name))
                    pos += 1
    main_text = "\n".join(lines) + "\n"
    k = rnd.random()
    if k < 0.5:
        a, b = rnd.choice(SEM_MUTATIONS)
        idxs = [i for i in range(len(imp_text)) if imp_text.startswith(a, i)]
        if idxs:
            i = rnd.choice(idxs)
            imp_text = imp_text[:i] + b + imp_text[i + len(a) :]
        # a type error inside a constant of the imported module
        if rnd.random() < 0.4:
            imp_text = imp_text.replace(" = 1 + 2", " = 1 + true", 1).replace(" = 3 * 5", " = 3 * (1 == 1)", 1)
    elif k < 0.7:
        a, b = rnd.choice(SEM_MUTATIONS)
        idxs = [i for i in range(len(main_text)) if main_text.startswith(a, i)]
        if idxs:
            i = rnd.choice(idxs)
            main_text = main_text[:i] + b + main_text[i + len(a) :]
    return "import-pair", {"m.emb": main_text, "imp.emb": imp_text}, "m.emb"


# ---- scope-aware wrong-kind substitution (C16) -----------------------------------------
#
# Naive token mutation dies in the parser or the symbol resolver.  To reach the
# typing, bounds, dependency and back-end passes with *unexpected but resolvable*
# operands, take a valid model program and replace 1-3 expression slots (or
# sub-expressions) by expressions over names that ARE in scope there, of any kind:
# scalar/struct/array/enum/virtual fields (earlier and later ones), parameters,
# generated fields ($size_in_bytes, $max/$min...), $next, this, enum values,
# static references, sub-field paths, huge constants, and the builtin functions.

def _all_structs(m):
    out = []

    def walk(t):
        if isinstance(t, M.Enum):
            return
        out.append(t)
        for s in t.subtypes:
            walk(s)
        for f in t.fields:
            for g in [f] + (f.anon or []):
                if g.inline is not None and not isinstance(g.inline, M.Enum):
                    walk(g.inline)

    for t in m.types:
        walk(t)
    return out


def _scope_atoms(rnd, m, st):
    atoms = []
    units = "bits" if st.kind == "bits" else "bytes"
    for f in st.fields:
        for g in ([f] if not f.is_anon else f.anon):
            atoms.append(g.name)
            if g.typ is not None and not g.typ.is_scalar() and not g.typ.dims:
                tgt = g.inline if (g.inline is not None and not isinstance(g.inline, M.Enum)) else g.typ.target
                if tgt is not None and tgt.fields:
                    sub = rnd.choice(tgt.fields)
                    if not sub.is_anon:
                        atoms.append("%s.%s" % (g.name, sub.name))
                    atoms.append("%s.$size_in_%s" % (g.name, "bits" if tgt.kind == "bits" else "bytes"))
    for pn, pt in st.params:
        atoms.append(pn)
    atoms += ["$size_in_%s" % units, "$max_size_in_%s" % units, "$min_size_in_%s" % units, "$next", "this"]
    for t in m.types:
        if isinstance(t, M.Enum) and t.values:
            atoms.append("%s.%s" % (t.name, rnd.choice(t.values)[0]))
        elif not isinstance(t, M.Enum):
            atoms.append("%s.$size_in_%s" % (t.name, "bits" if t.kind == "bits" else "bytes"))
            atoms.append("%s.$max_size_in_%s" % (t.name, "bits" if t.kind == "bits" else "bytes"))
            virt = [f for f in t.fields if f.is_virtual]
            if virt:
                atoms.append("%s.%s" % (t.name, rnd.choice(virt).name))
            phys = [f for f in t.fields if not f.is_virtual and not f.is_anon]
            if phys and rnd.random() < 0.3:
                atoms.append("%s.%s" % (t.name, rnd.choice(phys).name))
    atoms += ["0", "1", "-1", "true", "false", "255", "9223372036854775807", "9223372036854775808", "18446744073709551615", "18446744073709551616", "-9223372036854775808", "-9223372036854775809"]
    return atoms


LOCATION_CONSTANTS = ["-1", "0-1", "0", "1-2", "-9223372036854775808", "9223372036854775807", "18446744073709551615", "18446744073709551616", "64", "65", "0x7fff_ffff_ffff_ffff", "1*0-1", "-0", "2*2*2*2*2*2*2*2*2*2*2*2*2*2*2*2*2*2*2*2"]


def _wrong_kind_expr(rnd, atoms, depth=0, slot=None):
    if depth == 0 and slot in ("start", "size", "dim", "arg") and rnd.random() < 0.3:
        # offsets, sizes, lengths and arguments at the edges of what the passes expect
        return rnd.choice(LOCATION_CONSTANTS)
    k = rnd.random()
    a = lambda: rnd.choice(atoms) if depth >= 2 or rnd.random() < 0.6 else "(" + _wrong_kind_expr(rnd, atoms, depth + 1) + ")"
    if k < 0.40:
        return rnd.choice(atoms)
    if k < 0.62:
        return "%s %s %s" % (a(), rnd.choice(["+", "-", "*", "==", "!=", "<", "<=", ">", ">=", "&&", "||"]), a())
    if k < 0.70:
        return "%s ? %s : %s" % (a(), a(), a())
    if k < 0.78:
        return "$max(%s)" % ", ".join(a() for _ in range(rnd.choice([0, 1, 2, 3])))
    if k < 0.86:
        return "$present(%s)" % rnd.choice(atoms)
    if k < 0.94:
        return "%s(%s)" % (rnd.choice(["$upper_bound", "$lower_bound"]), a())
    return "%s(%s, %s)" % (rnd.choice(["$upper_bound", "$present", "$lower_bound"]), a(), a())


def _replace_sub(rnd, e, new):
    """Replaces a random sub-expression of model expression e by new."""
    if e is None or e[0] not in ("op", "?:", "max", "ub", "lb") or rnd.random() < 0.4:
        return new
    if e[0] == "op":
        if rnd.random() < 0.5:
            return ("op", e[1], _replace_sub(rnd, e[2], new), e[3])
        return ("op", e[1], e[2], _replace_sub(rnd, e[3], new))
    if e[0] == "?:":
        i = rnd.randrange(1, 4)
        return tuple(_replace_sub(rnd, x, new) if j == i else x for j, x in enumerate(e))
    if e[0] == "max" and e[1]:
        i = rnd.randrange(len(e[1]))
        return ("max", [_replace_sub(rnd, x, new) if j == i else x for j, x in enumerate(e[1])])
    if e[0] in ("ub", "lb"):
        return (e[0], _replace_sub(rnd, e[1], new))
    return new


def scope_substituted_source(rnd):
    """(class, files, main): a model program with 1-3 scope-aware substitutions."""
    m, _ = layout_module(rnd)
    structs = _all_structs(m)
    if not structs:
        return "scope-substitution", {"m.emb": module_text(m)}, "m.emb"
    for _ in range(rnd.choice([1, 1, 2, 3])):
        st = rnd.choice(structs)
        atoms = _scope_atoms(rnd, m, st)
        slots = []
        for f in st.fields:
            for g in [f] + (f.anon or []):
                if g.is_virtual:
                    slots.append((g, "value"))
                else:
                    slots += [(g, "start"), (g, "size")]
                    if g.typ is not None:
                        for i in range(len(g.typ.args)):
                            slots.append((g, ("arg", i)))
                        for i, d in enumerate(g.typ.dims):
                            if d is not None:
                                slots.append((g, ("dim", i)))
                slots.append((g, "cond"))
                slots.append((g, "requires"))
        slots.append((st, "requires"))
        if not slots:
            continue
        obj, slot = rnd.choice(slots)
        new = ("raw", _wrong_kind_expr(rnd, atoms, slot=(slot[0] if isinstance(slot, tuple) else slot)))
        if isinstance(slot, tuple):
            kind, i = slot
            lst = obj.typ.args if kind == "arg" else obj.typ.dims
            lst[i] = _replace_sub(rnd, lst[i], new)
        else:
            old = getattr(obj, slot, None)
            if old is None and slot in ("cond", "requires") and rnd.random() < 0.6:
                continue  # mostly mutate existing expressions
            if slot == "requires" and old is not None and not isinstance(old, tuple):
                continue
            setattr(obj, slot, _replace_sub(rnd, old, new))
    try:
        text = module_text(m)
    except Exception:
        m2, _ = layout_module(rnd)
        text = module_text(m2)
    return "scope-substitution", {"m.emb": text}, "m.emb"


# ---- programs around the 64-bit range gate (C16) ------------------------------------------
#
# The range checks are the only diagnostics that are located on expressions the compiler
# synthesizes or rewrites ($next, $size_in_*, aliases of anonymous bits).  Wide fields used in
# locations, lengths, conditions and virtual fields reach them.

def range_gate_source(rnd):
    wide = []
    lines = ['[$default byte_order: "%s"]' % rnd.choice(["LittleEndian", "BigEndian"])]
    in_bits = rnd.random() < 0.25
    unit = 1 if in_bits else 8
    lines.append(("bits Foo:" if in_bits else "struct Foo:"))
    pos = 0
    for i in range(rnd.choice([1, 2, 2, 3])):
        w = rnd.choice([64, 64, 63, 32, 62, 56]) if not in_bits else rnd.choice([32, 31, 16, 24])
        if not in_bits:
            w = (w + 7) // 8 * 8
        kind = rnd.choice(["UInt", "UInt", "Int"])
        name = "w%d" % i
        lines.append("  %d [+%d]  %s  %s" % (pos // unit, w // unit, kind, name))
        pos += w
        wide.append(name)
    small = "s0"
    if not in_bits:
        lines.append("  %d [+1]  UInt  %s" % (pos // 8, small))
        pos += 8
        wide_or_small = wide + [small]
    else:
        wide_or_small = wide
    a = lambda: rnd.choice(wide_or_small)
    big = lambda: rnd.choice(["9223372036854775807", "18446744073709551615", "4294967296", "2", "3", "1", "65536"])
    expr = lambda: rnd.choice([a(), "%s + %s" % (a(), a()), "%s * %s" % (a(), rnd.choice([a(), big()])), "%s - %s" % (a(), a()), "%s + %s" % (a(), big()), "$max(%s, %s)" % (a(), big()), "(%s) * (%s + 1)" % (a(), a())])
    elem = "UInt:8" if not in_bits else "UInt:1"
    for j in range(rnd.choice([2, 3, 4, 5, 6])):
        k = rnd.random()
        name = "x%d" % j
        if k < 0.2:
            lines.append("  %s [+%s]  %s[]  %s" % (expr(), expr(), elem, name))
        elif k < 0.4:
            lines.append("  $next [+%s]  %s  %s" % (rnd.choice(["1", "8"]) if in_bits else rnd.choice(["1", "2"]), "UInt", name))
        elif k < 0.5:
            lines.append("  %s [+1]  %s  %s" % (expr(), "Flag" if in_bits else "UInt", name))
        elif k < 0.62:
            lines.append("  let %s = %s" % (name, expr()))
        elif k < 0.72:
            lines.append("  if %s %s %s:" % (expr(), rnd.choice(["<", ">", "==", "<="]), expr()))
            lines.append("    $next [+1]  %s  %s" % ("Flag" if in_bits else "UInt", name))
        elif k < 0.8 and not in_bits:
            n = expr()
            lines.append("  %d [+%s]  UInt:8[%s]  %s" % (pos // 8, n, n, name))
        elif k < 0.88 and not in_bits:
            lines.append("  $next [+2]  bits:")
            lines.append("    0 [+%s]  UInt  b%d" % (rnd.choice(["16", "8", "65", "13"]), j))
            lines.append("    %s [+1]  Flag  c%d" % (rnd.choice(["15", "13", "64", "16"]), j))
        else:
            lines.append("  let %s = $size_in_%s + %s" % (name, "bits" if in_bits else "bytes", expr()))
    if rnd.random() < 0.3:
        lines.append("struct Bar:")
        lines.append("  0 [+%s]  Foo  foo" % rnd.choice(["8", "16", "Foo.$max_size_in_bytes" if not in_bits else "8"]))
        lines.append("  let far = foo.%s + %s" % (rnd.choice(wide), big()))
    return "range-gate", {"m.emb": "\n".join(lines) + "\n"}, "m.emb"
