"""Type-directed generation of well-typed modules and single-rule violations (C13).

Expressions are generated together with their type: "int", "bool", ("enum", "Ee").
A module is a list of lines; every expression site records its line number so a
mutation knows which definition it lives in.
"""

import random

INT, BOOL = "int", "bool"


def E(name):
    return ("enum", name)


class TExpr(object):
    """Typed expression tree."""

    __slots__ = ("op", "args", "typ", "text_", "nonneg")

    def __init__(self, op, args, typ, text=None, nonneg=True):
        self.op, self.args, self.typ, self.text_, self.nonneg = op, args, typ, text, nonneg

    def text(self, top=True):
        if self.text_ is not None:
            return self.text_
        a = [x.text(False) for x in self.args]
        if self.op in ("+", "-", "*", "==", "!=", "<", "<=", ">", ">=", "&&", "||"):
            s = "%s %s %s" % (a[0], self.op, a[1])
        elif self.op == "?:":
            s = "%s ? %s : %s" % (a[0], a[1], a[2])
        elif self.op == "$max":
            return "$max(%s)" % ", ".join(x.text(True) for x in self.args)
        elif self.op in ("$upper_bound", "$lower_bound"):
            return "%s(%s)" % (self.op, self.args[0].text(True))
        else:
            raise ValueError(self.op)
        return s if top else "(" + s + ")"

    def nodes(self, path=()):
        yield path, self
        for i, a in enumerate(self.args):
            for x in a.nodes(path + (i,)):
                yield x

    def replaced(self, path, new):
        if not path:
            return new
        args = list(self.args)
        args[path[0]] = args[path[0]].replaced(path[1:], new)
        return TExpr(self.op, args, self.typ, self.text_, self.nonneg)

    def depth(self):
        return 1 + max([a.depth() for a in self.args] or [0])


class Atoms(object):
    """What may be referenced at a site."""

    def __init__(self, ints, bools, enums, presentables):
        self.ints = ints  # names of small unsigned int fields / params
        self.bools = bools
        self.enums = enums  # {enum name: [field names]}
        self.enum_values = {"Ee": ["AA", "BB"], "Ff": ["XX", "YY"], "o.Ee": ["AA", "BB"]}
        self.presentables = presentables


class TypedGen(object):
    def __init__(self, rnd):
        self.rnd = rnd

    def atom(self, typ, atoms):
        r = self.rnd
        if typ == INT:
            if atoms.ints and r.random() < 0.65:
                return TExpr("atom", [], INT, r.choice(atoms.ints))
            return TExpr("atom", [], INT, str(r.choice([0, 1, 2, 3, 4, 7, 10, 33])))
        if typ == BOOL:
            k = r.random()
            if atoms.bools and k < 0.5:
                return TExpr("atom", [], BOOL, r.choice(atoms.bools))
            if atoms.presentables and k < 0.65:
                return TExpr("atom", [], BOOL, "$present(%s)" % r.choice(atoms.presentables))
            return TExpr("atom", [], BOOL, r.choice(["true", "false"]))
        en = typ[1]
        if atoms.enums.get(en) and r.random() < 0.5:
            return TExpr("atom", [], typ, r.choice(atoms.enums[en]))
        return TExpr("atom", [], typ, "%s.%s" % (en, r.choice(atoms.enum_values[en])))

    def gen(self, typ, atoms, depth, nonneg=False):
        """Well-typed expression of type typ.  nonneg: never negative (no '-')."""
        r = self.rnd
        if depth <= 0 or r.random() < 0.25:
            return self.atom(typ, atoms)
        if typ == INT:
            k = r.random()
            if k < 0.3:
                return TExpr("+", [self.gen(INT, atoms, depth - 1, nonneg), self.gen(INT, atoms, depth - 1, nonneg)], INT)
            if k < 0.42 and not nonneg:
                return TExpr("-", [self.gen(INT, atoms, depth - 1), self.gen(INT, atoms, depth - 1)], INT, nonneg=False)
            if k < 0.55:
                return TExpr("*", [self.gen(INT, atoms, depth - 1, nonneg), TExpr("atom", [], INT, str(r.choice([1, 2, 3])))], INT)
            if k < 0.7:
                # the documentation puts no limit on the number of arguments: mostly few, sometimes many
                n = r.choice([1, 2, 2, 3, 3, 6, 9, 12])
                return TExpr("$max", [self.gen(INT, atoms, depth - 1 if n <= 3 else 0, nonneg) for _ in range(n)], INT)
            if k < 0.88:
                return TExpr("?:", [self.gen(BOOL, atoms, depth - 1), self.gen(INT, atoms, depth - 1, nonneg), self.gen(INT, atoms, depth - 1, nonneg)], INT)
            if k < 0.94 and not nonneg:
                return TExpr(r.choice(["$upper_bound", "$lower_bound"]), [self.gen(INT, atoms, depth - 1)], INT, nonneg=False)
            return self.atom(INT, atoms)
        if typ == BOOL:
            k = r.random()
            if k < 0.3:
                return TExpr(r.choice(["==", "!=", "<", "<=", ">", ">="]), [self.gen(INT, atoms, depth - 1), self.gen(INT, atoms, depth - 1)], BOOL)
            if k < 0.45:
                en = E(r.choice(["Ee", "Ff", "o.Ee"]))
                return TExpr(r.choice(["==", "!="]), [self.gen(en, atoms, depth - 1), self.gen(en, atoms, depth - 1)], BOOL)
            if k < 0.55:
                return TExpr(r.choice(["==", "!="]), [self.gen(BOOL, atoms, depth - 1), self.gen(BOOL, atoms, depth - 1)], BOOL)
            if k < 0.8:
                return TExpr(r.choice(["&&", "||"]), [self.gen(BOOL, atoms, depth - 1), self.gen(BOOL, atoms, depth - 1)], BOOL)
            if k < 0.92:
                return TExpr("?:", [self.gen(BOOL, atoms, depth - 1), self.gen(BOOL, atoms, depth - 1), self.gen(BOOL, atoms, depth - 1)], BOOL)
            return self.atom(BOOL, atoms)
        if r.random() < 0.5:
            return TExpr("?:", [self.gen(BOOL, atoms, depth - 1), self.gen(typ, atoms, depth - 1), self.gen(typ, atoms, depth - 1)], typ)
        return self.atom(typ, atoms)

    def wrong(self, typ, atoms, depth=1):
        """An expression whose type differs from typ."""
        r = self.rnd
        options = [INT, BOOL, E("Ee"), E("Ff"), E("o.Ee")]
        options = [o for o in options if o != typ]
        t2 = r.choice(options)
        return self.gen(t2, atoms, depth), t2


class Site(object):
    """One expression position in the module with its required type."""

    def __init__(self, kind, expr, want, line_tag):
        self.kind, self.expr, self.want, self.line_tag = kind, expr, want, line_tag


def build_module(rnd, max_depth=3):
    """Returns (render(sites) -> (text, {tag: (first line, last line)}), sites)."""
    g = TypedGen(rnd)
    base_atoms = Atoms(["a", "b", "u6"], ["fl", "fm"], {"Ee": ["e"], "Ff": ["f"], "o.Ee": ["oe"]}, ["a", "e", "fl"])
    pp_atoms = Atoms(["n", "x"], [], {"Ee": ["k"]}, ["x"])
    sites = []

    def site(kind, want, tag, atoms=base_atoms, nonneg=False, depth=None):
        d = depth if depth is not None else rnd.choice([0, 1, 2, max_depth, max_depth + 1])
        s = Site(kind, g.gen(want, atoms, d, nonneg), want, tag)
        sites.append(s)
        return s

    S = {}
    S["pp_cond"] = site("condition", BOOL, "pp_y", pp_atoms)
    S["vi"] = site("virtual-int", INT, "vi")
    S["vb"] = site("virtual-bool", BOOL, "vb")
    S["ve"] = site("virtual-enum", E("Ee"), "ve")
    S["c_cond"] = site("condition", BOOL, "c0")
    S["off"] = site("offset", INT, "d0", nonneg=True, depth=rnd.choice([0, 1, 2]))
    S["size"] = site("size", INT, "d0", nonneg=True, depth=rnd.choice([0, 1, 2]))
    S["alen"] = site("array-length", INT, "arr", nonneg=True, depth=rnd.choice([0, 1, 2]))
    # inside a field's attribute only `this` is visible
    S["req"] = site("field-requires", BOOL, "r0", Atoms(["this"], [], {}, []))
    S["sreq"] = site("struct-requires", BOOL, "Foo")
    S["p_int"] = site("parameter-int", INT, "p0", depth=rnd.choice([0, 1, 2]))
    S["p_enum"] = site("parameter-enum", E("Ee"), "p0", depth=rnd.choice([0, 1]))
    S["ev"] = site("enum-value", INT, "Gg", Atoms([], [], {}, []), nonneg=True, depth=rnd.choice([0, 1, 2]))
    # constant virtual fields that an EARLIER structure reads through static references (Foo.kci):
    # their definitions are then first reached through the reference, not in source order
    S["kci"] = site("virtual-constant-int", INT, "kci", Atoms([], [], {}, []), depth=rnd.choice([1, 2, 3]))
    S["kcb"] = site("virtual-constant-bool", BOOL, "kcb", Atoms([], [], {}, []), depth=rnd.choice([1, 2, 3]))
    # [requires] on a type nested inside another type
    S["nreq"] = site("nested-struct-requires", BOOL, "Inner", Atoms(["na", "nb"], [], {}, ["na"]))

    def render(sites_map, override=None):
        L = []
        spans = {}
        override = override or {}

        def emit(text, tag=None):
            if tag in override:
                if override[tag] is None:
                    return
                text, override[tag] = override[tag], None  # replace the tag's first line, drop the rest
            L.append(text)
            if tag:
                a, b = spans.get(tag, (len(L), len(L)))
                spans[tag] = (min(a, len(L)), max(b, len(L)))

        emit('import "o.emb" as o')
        emit('[$default byte_order: "LittleEndian"]')
        emit("enum Ee:")
        emit("  AA = 1")
        emit("  BB = 2")
        emit("enum Ff:")
        emit("  XX = 0")
        emit("  YY = 5")
        emit("enum Gg:", "Gg")
        emit("  ZZ = %s" % sites_map["ev"].expr.text(), "Gg")
        emit("struct Pp(n: UInt:8, k: Ee):")
        emit("  0 [+1]  UInt  x", "pp_x")
        emit("  1 [+n]  UInt:8[]  y", "pp_yy")
        emit("  if %s:" % sites_map["pp_cond"].expr.text(), "pp_y")
        emit("    0 [+1]  UInt  z", "pp_y")
        emit("struct Early:")
        emit("  0 [+1]  UInt  q")
        emit("  let ei = Foo.kci + 1")
        emit("  let eb = Foo.kcb")
        emit("struct Foo:", "Foo")
        emit("  [requires: %s]" % sites_map["sreq"].expr.text(), "Foo")
        emit("  struct Inner:", "Inner")
        emit("    [requires: %s]" % sites_map["nreq"].expr.text(), "Inner")
        emit("    0 [+1]  UInt  na", "Inner")
        emit("    1 [+1]  UInt  nb", "Inner")
        emit("  0 [+1]  UInt  a", "a")
        emit("  1 [+1]  UInt  b", "b")
        emit("  2 [+1]  Ee  e", "e")
        emit("  3 [+1]  Ff  f", "f")
        emit("  7 [+1]  o.Ee  oe", "oe")
        emit("  4 [+1]  bits:", "anon")
        emit("    0 [+1]  Flag  fl", "anon")
        emit("    1 [+1]  Flag  fm", "anon")
        emit("    2 [+6]  UInt  u6", "anon")
        emit("  let vi = %s" % sites_map["vi"].expr.text(), "vi")
        emit("  let vb = %s" % sites_map["vb"].expr.text(), "vb")
        emit("  let ve = %s" % sites_map["ve"].expr.text(), "ve")
        emit("  let kci = %s" % sites_map["kci"].expr.text(), "kci")
        emit("  let kcb = %s" % sites_map["kcb"].expr.text(), "kcb")
        emit("  20 [+2]  Inner  inner", "inner")
        emit("  if %s:" % sites_map["c_cond"].expr.text(), "c0")
        emit("    5 [+1]  UInt  c0", "c0")
        emit("  %s [+%s]  UInt  d0" % (sites_map["off"].expr.text(), "1"), "d0")
        emit("  8 [+%s]  UInt:8[]  d1" % sites_map["size"].expr.text(), "d0")
        emit("  300 [+%s]  UInt:8[%s]  arr" % (sites_map["alen"].expr.text(), sites_map["alen"].expr.text()), "arr")
        emit("  6 [+1]  UInt  r0", "r0")
        emit("    [requires: %s]" % sites_map["req"].expr.text(), "r0")
        emit("  1000 [+40]  Pp(%s, %s)  p0" % (sites_map["p_int"].expr.text(), sites_map["p_enum"].expr.text()), "p0")
        return "\n".join(L) + "\n", spans

    return render, S


VIOLATION_KINDS = [
    "wrong-type-subexpression",  # operator signature broken somewhere inside
    "wrong-type-at-position",  # whole expression has the wrong type for its position
]


def mutate(rnd, S):
    """Applies one typing-rule violation; returns (new S, description, tag)."""
    g = TypedGen(rnd)
    atoms = Atoms(["a", "b", "u6"], ["fl", "fm"], {"Ee": ["e"], "Ff": ["f"], "o.Ee": ["oe"]}, ["a"])
    key = rnd.choice(sorted(S))
    site = S[key]
    if key in ("pp_cond",):
        atoms = Atoms(["n", "x"], [], {"Ee": ["k"]}, ["x"])
    if key == "req":
        atoms = Atoms(["this"], [], {}, [])
    if key in ("ev", "kci", "kcb"):
        atoms = Atoms([], [], {}, [])
    if key == "nreq":
        atoms = Atoms(["na", "nb"], [], {}, ["na"])
    nodes = list(site.expr.nodes())
    path, node = rnd.choice(nodes)
    bad, t2 = g.wrong(node.typ, atoms, rnd.choice([0, 1]))
    # comparing two values of one enum with < is accepted upstream (pinned by a unit test): not a violation
    new_expr = site.expr.replaced(path, bad)
    S2 = dict(S)
    S2[key] = Site(site.kind, new_expr, site.want, site.line_tag)
    where = "top" if not path else "depth-%d" % len(path)
    parent_op = None
    cur = site.expr
    for i in path[:-1]:
        cur = cur.args[i]
    if path:
        parent_op = cur.op
    desc = {"site": site.kind, "where": where, "parent": parent_op or "position", "had": str(node.typ), "got": str(t2)}
    return S2, desc, site.line_tag


OTHER_MODULE = "enum Ee:\n  AA = 1\n  BB = 2\n"

# Single-rule violations that are not "an expression of another type": arity and
# argument kinds of functions and parameterised types, parameter types,
# attribute value kinds.  Each replaces the line(s) of one tag of the template.
LINE_VIOLATIONS = [
    ("too-few-parameters", "p0", "  1000 [+40]  Pp(1)  p0"),
    ("too-many-parameters", "p0", "  1000 [+40]  Pp(1, Ee.AA, 2)  p0"),
    ("no-parameters-given", "p0", "  1000 [+40]  Pp  p0"),
    ("parameters-on-prelude-type", "r0", "  6 [+1]  UInt(1)  r0"),
    ("parameters-on-enum-type", "e", "  2 [+1]  Ee(1)  e"),
    ("parameters-on-unparameterised-struct", "oe", "  7 [+1]  o.Ee(a, b)  oe"),
    ("$max-without-arguments", "vi", "  let vi = $max()"),
    ("$max-ninth-argument-boolean", "vi", "  let vi = $max(a, b, 1, 2, 3, 4, 5, 6, fl)"),
    ("$max-tenth-argument-enum", "vi", "  let vi = $max(a, b, 1, 2, 3, 4, 5, 6, 7, e, 9)"),
    ("$max-last-of-many-arguments-boolean", "vi", "  let vi = $max(1, 2, 3, 4, 5, 6, 7, 8, 9, 10, 11, 12, 13, 14, 15, 16, true)"),
    ("$present-without-arguments", "vb", "  let vb = $present()"),
    ("$present-two-arguments", "vb", "  let vb = $present(a, b)"),
    ("$present-of-non-field", "vb", "  let vb = $present(1 + 1)"),
    ("$upper_bound-of-boolean", "vi", "  let vi = $upper_bound(fl)"),
    ("$lower_bound-of-enum", "vi", "  let vi = $lower_bound(e)"),
    ("$upper_bound-without-arguments", "vi", "  let vi = $upper_bound()"),
    ("$lower_bound-two-arguments", "vi", "  let vi = $lower_bound(a, b)"),
    ("byte_order-integer-value", "a", '  0 [+1]  UInt  a\n    [byte_order: 1]'),
    ("requires-integer-value", "r0", "  6 [+1]  UInt  r0\n    [requires: 1]"),
    ("requires-string-value", "r0", '  6 [+1]  UInt  r0\n    [requires: "this"]'),
    ("requires-enum-value", "r0", "  6 [+1]  UInt  r0\n    [requires: Ee.AA]"),
    ("text_output-boolean-value", "a", "  0 [+1]  UInt  a\n    [text_output: true]"),
    ("struct-requires-integer", "Foo", "struct Foo:\n  [requires: a + b]"),
    ("struct-requires-enum", "Foo", "struct Foo:\n  [requires: e]"),
    ("maximum_bits-string", "Gg", 'enum Gg:\n  [maximum_bits: "8"]\n  ZZ = 1'),
    ("is_signed-integer", "Gg", "enum Gg:\n  [is_signed: 1]\n  ZZ = 1"),
    ("namespace-integer", "Gg", "enum Gg:\n  [(cpp) namespace: 3]\n  ZZ = 1"),
    ("condition-is-enum", "c0", "  if e:\n    5 [+1]  UInt  c0"),
    ("condition-is-integer", "c0", "  if a:\n    5 [+1]  UInt  c0"),
    ("offset-is-flag", "d0", "  fl [+1]  UInt  d0\n  8 [+1]  UInt:8[]  d1"),
    ("size-is-enum", "d0", "  9 [+1]  UInt  d0\n  8 [+e]  UInt:8[]  d1"),
    ("array-length-is-boolean", "arr", "  300 [+2]  UInt:8[a == 2]  arr"),
    ("condition-is-integer-on-virtual-only-block", "c0", "  if a:\n    let c0 = 1"),
    ("condition-is-enum-on-virtual-only-block", "c0", "  if e:\n    let c0 = true"),
    ("inner-array-dimension-boolean", "arr", "  300 [+8]  UInt:8[true][4]  arr"),
    ("inner-array-dimension-comparison", "arr", "  300 [+8]  UInt:8[2 > 1][4]  arr"),
    ("inner-array-dimension-enum", "arr", "  300 [+8]  UInt:8[Ee.BB][4]  arr"),
    ("middle-array-dimension-boolean", "arr", "  300 [+8]  UInt:8[2][false || true][4]  arr"),
    ("outer-array-dimension-enum-of-two", "arr", "  300 [+8]  UInt:8[4][Ee.BB]  arr"),
    ("ordering-on-booleans", "vb", "  let vb = fl < fm"),
    ("arithmetic-on-enum", "vi", "  let vi = e + 1"),
    ("arithmetic-on-boolean", "vi", "  let vi = fl * 2"),
    ("and-on-integers", "vb", "  let vb = a && b"),
    ("equality-across-modules-same-name", "vb", "  let vb = e == oe"),
    ("choice-across-modules-same-name", "ve", "  let ve = fl ? e : oe"),
    ("equality-int-vs-enum", "vb", "  let vb = a == Ee.AA"),
]
