"""Random derivations of the Emboss grammar (module_ir.PRODUCTIONS) rendered to
source text.  Used by C08/C09 (token sequences), C11 and C16 (texts).

All randomness comes from a random.Random seeded by a Hypothesis-drawn integer
(Hypothesis's own buffer overflows on derivations with thousands of choices), so
every case is a pure function of the Hypothesis draw.
"""

import random

from compiler.front_end import module_ir

_INF = 10**9


class GrammarSampler(object):
    def __init__(self, productions=None, start=None):
        self.productions = list(productions or module_ir.PRODUCTIONS)
        self.start = start or module_ir.START_SYMBOL
        self.by_lhs = {}
        for p in self.productions:
            self.by_lhs.setdefault(p.lhs, []).append(p)
        self.nonterminals = set(self.by_lhs)
        # minimal derivation height per nonterminal and per production
        self.min_h = {n: _INF for n in self.nonterminals}
        changed = True
        while changed:
            changed = False
            for p in self.productions:
                hgt = 1 + max([self.sym_h(s) for s in p.rhs] or [0])
                if hgt < self.min_h[p.lhs]:
                    self.min_h[p.lhs] = hgt
                    changed = True
        self.prod_h = {}
        for p in self.productions:
            self.prod_h[p] = 1 + max([self.sym_h(s) for s in p.rhs] or [0])
        # right-recursive list nonterminals  L -> eps | X L   (or L+ -> X L*)
        self.lists = {}
        for lhs, prods in self.by_lhs.items():
            heads = []
            ok = True
            has_eps = False
            for p in prods:
                if len(p.rhs) == 0:
                    has_eps = True
                elif len(p.rhs) == 2 and (p.rhs[1] == lhs or (lhs.endswith("+") and p.rhs[1] == lhs[:-1] + "*")):
                    heads.append(p.rhs[0])
                else:
                    ok = False
            if ok and heads:
                self.lists[lhs] = (heads, 0 if has_eps else 1)

    def sym_h(self, s):
        return self.min_h[s] if s in self.nonterminals else 0

    def derive(self, rnd, budget=12, symbol=None, grow=0.6):
        """Returns the list of terminal symbols of a random derivation.

        budget: maximal remaining tree height.  grow: probability of choosing a
        non-minimal production when several fit.
        """
        out = []
        self._derive(rnd, symbol or self.start, budget, out, grow)
        return out

    def _derive(self, rnd, sym, budget, out, grow):
        if sym not in self.nonterminals:
            out.append(sym)
            return
        if sym in self.lists:
            heads, lo = self.lists[sym]
            heads = [x for x in heads if self.sym_h(x) <= budget - 1] or [min(heads, key=self.sym_h)]
            hi = 0 if budget <= 2 else rnd.choice([0, 1, 1, 2, 3, 5]) if rnd.random() < grow else rnd.choice([0, 1])
            for _ in range(max(lo, hi)):
                self._derive(rnd, rnd.choice(heads), budget - 1, out, grow)
            return
        prods = self.by_lhs[sym]
        fit = [p for p in prods if self.prod_h[p] <= budget]
        if not fit:
            fit = [min(prods, key=lambda p: self.prod_h[p])]
        if len(fit) > 1 and rnd.random() >= grow:
            m = min(self.prod_h[p] for p in fit)
            fit = [p for p in fit if self.prod_h[p] == m]
        p = rnd.choice(fit)
        for s in p.rhs:
            self._derive(rnd, s, budget - 1, out, grow)


SNAKE = ["a", "b", "cc", "x", "y", "foo", "bar", "baz_1", "len", "tag", "p", "q2"]
CAMEL = ["Foo", "Bar", "Baz", "Qx", "UInt", "Int", "Flag", "Bcd", "Float", "Aa", "Bb1"]
SHOUTY = ["AA", "BB", "CC_1", "ZERO", "ONE", "X_", "MAX"]
NUMBERS = ["0", "1", "2", "3", "4", "7", "8", "16", "32", "64", "255", "0x10", "0b101", "1_000", "0xffff_ffff", "18446744073709551615", "18446744073709551616", "9223372036854775808"]
STRINGS = ['"x"', '"LittleEndian"', '"BigEndian"', '"a.emb"', '"b.emb"', '""', '"a\\nb"', '"q\\"uote"', '"Emit"', '"Skip"', '"::ns::x"']
ATTR_NAMES = ["byte_order", "requires", "text_output", "is_signed", "maximum_bits", "namespace", "enum_case", "fixed_size_in_bits", "static_requirements", "addressable_unit_size", "is_integer", "xyz"]
DOCS = ["-- doc", "--", "-- a  b ", "-- # not comment"]
COMMENTS = ["#", "# c", "#c  ", "# -- x"]


def lexeme(rnd, sym, pools=None):
    pools = pools or {}
    if sym.startswith('"') and sym.endswith('"') and sym != '"\\n"':
        return sym[1:-1]
    if sym == "SnakeWord":
        return rnd.choice(pools.get("snake", SNAKE))
    if sym == "CamelWord":
        return rnd.choice(pools.get("camel", CAMEL))
    if sym == "ShoutyWord":
        return rnd.choice(pools.get("shouty", SHOUTY))
    if sym == "Number":
        return rnd.choice(pools.get("number", NUMBERS))
    if sym == "String":
        return rnd.choice(pools.get("string", STRINGS))
    if sym == "BooleanConstant":
        return rnd.choice(["true", "false"])
    if sym == "Documentation":
        return rnd.choice(DOCS)
    if sym == "Comment":
        return rnd.choice(COMMENTS)
    if sym in ("BadWord", "BadNumber", "BadDocumentation"):
        return {"BadWord": "abcDef", "BadNumber": "0x_", "BadDocumentation": "--x"}[sym]
    raise ValueError("no lexeme for %r" % sym)


def render(rnd, terminals, noisy=True, pools=None, indent_unit=None):
    """Renders a terminal-symbol sequence (with Indent/Dedent/"\\n") to text.

    Returns (text, lexemes) where lexemes is the list of (symbol, text) of the
    tokens the tokenizer is expected to produce (ignoring positions).
    """
    lines = []
    cur = []
    stack = [""]
    at_line_start = True
    pending_indent = False
    prev_attr_name = False
    i = 0
    n = len(terminals)
    while i < n:
        sym = terminals[i]
        if sym == "Indent":
            unit = indent_unit if indent_unit is not None else (rnd.choice(["  ", " ", "    ", "\t", "   "]) if noisy else "  ")
            stack.append(stack[-1] + unit)
        elif sym == "Dedent":
            if len(stack) > 1:
                stack.pop()
        elif sym == '"\\n"':
            if at_line_start:
                # blank or comment-only line: arbitrary indentation is allowed
                lines.append((rnd.choice(["", " ", "   ", stack[-1]]) if noisy else ""))
            else:
                lines.append("".join(cur) + (rnd.choice(["", "", " ", "  "]) if noisy else ""))
            cur = []
            at_line_start = True
        else:
            text = lexeme(rnd, sym, pools)
            if sym == "Comment" and at_line_start:
                # comment-only line
                ind = rnd.choice(["", stack[-1], " "]) if noisy else stack[-1]
                cur.append(ind + text)
                at_line_start = False
            elif at_line_start:
                cur.append(stack[-1] + text)
                at_line_start = False
            else:
                sep = " " if not noisy else rnd.choice([" ", " ", "  ", "   "])
                cur.append(sep + text)
        i += 1
    if cur:
        lines.append("".join(cur))
    return "\n".join(lines) + ("\n" if lines else "")


_sampler = None


def sampler():
    global _sampler
    if _sampler is None:
        _sampler = GrammarSampler()
    return _sampler


def realizable(terms):
    """An Indent must be followed by a real (non-comment) line before its Dedent."""
    n = len(terms)
    for i, t in enumerate(terms):
        if t == "Indent":
            j = i + 1
            while j < n and terms[j] in ("Comment", '"\\n"'):
                j += 1
            if j >= n or terms[j] == "Dedent":
                return False
    return True


def random_module_terms(rnd, budget=None, grow=None):
    for _ in range(200):
        b = budget if budget is not None else rnd.choice([10, 12, 14, 16, 20])
        g = grow if grow is not None else rnd.choice([0.5, 0.7, 0.9])
        terms = sampler().derive(rnd, budget=b, grow=g)
        if realizable(terms):
            return terms
    return []


def random_module_text(seed, budget=None, noisy=True, pools=None, grow=None):
    rnd = random.Random(seed)
    terms = random_module_terms(rnd, budget, grow)
    return render(rnd, terms, noisy=noisy, pools=pools)
