"""Reference semantics of Emboss views over the embgen model.

Written from doc/language-reference.md and doc/cpp-reference.md; shares no code
with the compiler or the runtime.  Values live in a known/unknown lattice
(None = unknown).  Observations are (key, value) pairs in the exact order the
C++ driver (cppfarm.driver) prints them.
"""

from embgen import model as M
from embref import codec


class Bits(object):
    """A bits container: value + width, or not Ok (too few bytes)."""

    __slots__ = ("value", "nbits")

    def __init__(self, value, nbits):
        self.value = value
        self.nbits = nbits


class Interp(object):
    def __init__(self, modules):
        """modules: dict alias-or-'' -> model.Module ('' = the main module)."""
        self.modules = modules

    def find_type(self, name, scope=None):
        """Resolve a (possibly dotted) type name from a struct scope outwards."""
        parts = name.split(".")
        if parts[0] in self.modules and parts[0] != "":
            return self._walk(self.modules[parts[0]].types, parts[1:])
        s = scope
        while s is not None:
            t = self._walk(getattr(s, "subtypes", []), parts)
            if t is not None:
                return t
            s = getattr(s, "parent", None)
        return self._walk(self.modules[""].types, parts)

    @staticmethod
    def _walk(types, parts):
        cur = None
        scope = types
        for p in parts:
            cur = next((t for t in scope if t.name == p), None)
            if cur is None:
                return None
            scope = getattr(cur, "subtypes", [])
        return cur


def kleene_and(a, b):
    if a is False or b is False:
        return False
    if a is None or b is None:
        return None
    return True


def kleene_or(a, b):
    if a is True or b is True:
        return True
    if a is None or b is None:
        return None
    return False


class StructView(object):
    def __init__(self, interp, st, params, store, byte_order_default=None, params_ok=True, origin=None):
        # origin: absolute byte offset of this view's storage in the top-level
        # buffer (byte-oriented structs), or (container byte offset, container
        # bytes, byte order, bit base) for bits views
        self.origin = origin if origin is not None else (0 if st.kind != "bits" else None)
        self.I = interp
        self.st = st
        self.params = params or {}
        self.params_ok = params_ok
        self.store = store  # bytes / Bits / None
        self.unit = 1 if st.kind == "bits" else 8
        self._members = None

    # ---- name lookup ---------------------------------------------------------
    def members(self):
        """name -> (field, anon_parent or None), anonymous-bits members hoisted."""
        if self._members is None:
            m = {}
            for f in self.st.fields:
                if f.is_anon:
                    for g in f.anon:
                        m[g.name] = (g, f)
                        if g.abbr:
                            m[g.abbr] = (g, f)
                m[f.name] = (f, None)
                if f.abbr:
                    m[f.abbr] = (f, None)
            self._members = m
        return self._members

    # ---- expressions -----------------------------------------------------------
    def ev(self, e, this=None):
        k = e[0]
        if k == "n" or k == "b":
            return e[1]
        if k == "e":
            en = self.I.find_type(e[1], self.st)
            return dict(en.values)[e[2]]
        if k == "r":
            return self.ref_value(e[1], this)
        if k == "op":
            op = e[1]
            a = self.ev(e[2], this)
            b = self.ev(e[3], this)
            if op == "&&":
                return kleene_and(a, b)
            if op == "||":
                return kleene_or(a, b)
            if a is None or b is None:
                return None
            if op == "+":
                return a + b
            if op == "-":
                return a - b
            if op == "*":
                return a * b
            if op == "==":
                return a == b
            if op == "!=":
                return a != b
            if op == "<":
                return a < b
            if op == "<=":
                return a <= b
            if op == ">":
                return a > b
            if op == ">=":
                return a >= b
            raise ValueError(op)
        if k == "?:":
            c = self.ev(e[1], this)
            if c is None:
                return None
            return self.ev(e[2], this) if c else self.ev(e[3], this)
        if k == "max":
            vs = [self.ev(a, this) for a in e[1]]
            if any(v is None for v in vs):
                return None
            return max(vs)
        if k == "present":
            return self.present(e[1])
        if k == "size":
            v = self if not e[1] else self.path_view(e[1])
            if v is None or not isinstance(v, StructView):
                return None
            s = v.size()
            if s is None:
                return None
            if e[2] in ("$size_in_bytes", "$size_in_bits"):
                return s
            raise ValueError(e)
        raise ValueError("reference interpreter does not evaluate %r" % (e,))

    def ref_value(self, path, this=None):
        if path == ("this",):
            return this
        if len(path) == 1 and path[0] in self.params:
            return self.params[path[0]] if self.params_ok else None
        fv = self.path_view(path)
        if fv is None or isinstance(fv, (StructView, ArrayView)):
            return None
        return fv.value() if fv.ok() else None

    def path_view(self, path):
        view = self
        fv = None
        for i, name in enumerate(path):
            if not isinstance(view, StructView):
                return None
            fv = view.field_view_by_name(name)
            if fv is None:
                return None
            view = fv
        return fv

    def present(self, path):
        view = self
        for name in path[:-1]:
            view = view.field_view_by_name(name)
            if not isinstance(view, StructView):
                return None
        return view.exists_by_name(path[-1])

    # ---- existence ----------------------------------------------------------------
    def exists(self, f):
        return True if f.cond is None else self.ev(f.cond)

    def exists_by_name(self, name):
        f, anon = self.members()[name]
        if anon is None:
            return self.exists(f)
        av = self.field_view(anon)
        inner = av.exists(f) if isinstance(av, StructView) else None
        return kleene_and(self.exists(anon), inner)

    # ---- field views ----------------------------------------------------------------
    def field_view_by_name(self, name):
        if name not in self.members():
            return None
        f, anon = self.members()[name]
        if anon is None:
            return self.field_view(f)
        av = self.field_view(anon)
        if not isinstance(av, StructView):
            return None
        if self.exists_by_name(name) is not True:
            return NullView(f)
        return av.field_view(f)

    def field_view(self, f):
        if f.is_virtual:
            if self.exists(f) is not True:
                return NullView(f)
            return VirtualView(self, f)
        ex = self.exists(f)
        null = ex is not True
        start = size = None
        if not null:
            start = self.ev(f.start)
            size = self.ev(f.size)
            if start is None or size is None or start < 0 or size < 0:
                null = True
        sub = None
        full = False
        if not null and self.store is not None:
            if self.st.kind == "bits":
                # a sub-range of a bits container must lie inside it
                if start + size <= self.store.nbits:
                    sub = Bits(codec.extract(self.store.value, start, size), size)
                    full = True
            else:
                n = len(self.store)
                if start > n:
                    sub = b""
                else:
                    sub = self.store[start : start + size]
                full = len(sub) == size
        origin = None
        if not null:
            if self.st.kind == "bits":
                if self.origin is not None:
                    origin = (self.origin[0], self.origin[1], self.origin[2], self.origin[3] + start)
            elif self.origin is not None:
                origin = self.origin + start
        return make_view(self, f, f.typ, sub, null, size, full, origin)

    # ---- size / completeness / ok ------------------------------------------------------
    def size(self):
        # A structure whose size does not depend on anything (the largest
        # certainly-present end is >= every possible end) has a constant size.
        ss = constant_size(self.st)
        if ss is not None:
            return ss
        ends = [0]
        for f in self.st.fields:
            if f.is_virtual:
                continue
            ex = self.exists(f)
            if ex is None:
                return None
            if ex:
                s, z = self.ev(f.start), self.ev(f.size)
                if s is None or z is None:
                    return None
                ends.append(s + z)
        return max(ends)

    def store_len(self):
        if self.store is None:
            return None
        return self.store.nbits if isinstance(self.store, Bits) else len(self.store)

    def is_complete(self):
        s = self.size()
        n = self.store_len()
        return s is not None and n is not None and n >= s

    def ok(self):
        if not self.is_complete() or not self.params_ok:
            return False
        for name, (f, anon) in self.members().items():
            if name != f.name:
                continue  # abbreviation
            ex = self.exists_by_name(name)
            if ex is None:
                return False
            if ex:
                v = self.field_view_by_name(name)
                if v is None or not v.ok():
                    return False
        if self.st.requires is not None:
            if self.ev(self.st.requires) is not True:
                return False
        return True


def make_view(parent, f, typ, sub, null, declared_size, full, origin=None):
    """View of storage `sub` as type `typ` (arrays peel one dimension)."""
    if typ.dims:
        return ArrayView(parent, f, typ, sub, null, declared_size, full)
    if typ.is_scalar():
        sv = ScalarView(parent, f, typ, sub, null)
        if origin is not None:
            if isinstance(origin, tuple):
                sv.loc = origin + (typ.bits,)
            else:
                sv.loc = (origin, (typ.bits + 7) // 8, effective_byte_order(parent, f), 0, typ.bits)
        return sv
    target = typ.target
    if f.inline is not None and not isinstance(f.inline, M.Enum):
        target = f.inline
    if null:
        return StructView(parent.I, target, None, None, params_ok=False if target.params else True)
    params = {}
    ok = True
    for (pname, ptype), arg in zip(target.params, typ.args):
        v = parent.ev(arg)
        if v is None:
            ok = False
        params[pname] = v
    if not ok:
        # the generated accessor returns a null view when an argument is unknown
        return StructView(parent.I, target, None, None, params_ok=False)
    if target.kind == "bits" and parent.st.kind != "bits":
        # bytes -> container in the field's byte order; too few bytes => not Ok
        nbits = (declared_size or 0) * 8
        if sub is None or len(sub) * 8 != nbits:
            return StructView(parent.I, target, params, None)
        bo = effective_byte_order(parent, f)
        return StructView(parent.I, target, params, Bits(codec.container_value(sub, bo), nbits), origin=(origin, nbits // 8, bo, 0) if origin is not None and not isinstance(origin, tuple) else None)
    return StructView(parent.I, target, params, sub, origin=origin)


def effective_byte_order(parent, f):
    if f.byte_order:
        return f.byte_order
    s = parent.st
    while s is not None:
        if getattr(s, "default_byte_order", None):
            return s.default_byte_order
        s = getattr(s, "parent", None)
    return parent.I.modules[""].default_byte_order or "LittleEndian"


class NullView(object):
    def __init__(self, f):
        self.f = f

    def ok(self):
        return False

    def is_complete(self):
        return False

    def value(self):
        return None


class ScalarView(object):
    loc = None  # (container byte offset, container bytes, byte order, bit offset, width)

    def __init__(self, parent, f, typ, sub, null):
        self.parent, self.f, self.typ, self.sub, self.null = parent, f, typ, sub, null

    # ---- writes (C03) ----------------------------------------------------------
    def representable(self, v):
        t = self.typ
        if t.kind == "Flag":
            return v in (0, 1, True, False)
        if t.kind == "Float":
            return True
        lo, hi = codec.value_range(t.kind, t.bits, self.signed_enum())
        return lo <= v <= hi

    def could_write(self, v):
        if not self.representable(v):
            return False
        if self.f.requires is not None and not self.typ.dims:
            if self.parent.ev(self.f.requires, this=(bool(v) if self.typ.kind == "Flag" else v)) is not True:
                return False
        return True

    def encode(self, v):
        t = self.typ
        if t.kind == "Bcd":
            return codec.bcd_encode(v, t.bits)
        if t.kind == "Flag":
            return 1 if v else 0
        return codec.from_signed(int(v), t.bits)

    def try_write(self, v, buf):
        """Returns (ok, new buffer)."""
        if not self.could_write(v) or not self.is_complete() or self.loc is None:
            return False, buf
        off, nbytes, bo, bit, width = self.loc
        cont = codec.container_value(bytes(buf[off : off + nbytes]), bo)
        cont = codec.deposit(cont, bit, width, self.encode(v))
        nb = bytearray(buf)
        nb[off : off + nbytes] = codec.container_bytes(cont, nbytes, bo)
        return True, bytes(nb)

    def raw(self):
        """(complete, raw bits)"""
        t = self.typ
        if self.null or self.sub is None:
            return False, None
        if isinstance(self.sub, Bits):
            if self.sub.nbits != t.bits:
                return False, None
            return True, self.sub.value
        if len(self.sub) * 8 != t.bits:
            return False, None
        bo = effective_byte_order(self.parent, self.f)
        return True, codec.container_value(self.sub, bo)

    def is_complete(self):
        return self.raw()[0]

    def signed_enum(self):
        return self.typ.kind == "enum" and self.typ.target.signed()

    def decoded(self):
        c, raw = self.raw()
        if not c:
            return False, None
        return codec.decode(self.typ.kind, raw, self.typ.bits, self.signed_enum())

    def ok(self):
        valid, v = self.decoded()
        if not valid:
            return False
        if self.f.requires is not None and not self.typ.dims:
            if self.parent.ev(self.f.requires, this=v) is not True:
                return False
        return True

    def value(self):
        return self.decoded()[1]


class VirtualView(object):
    def __init__(self, parent, f):
        self.parent, self.f = parent, f

    def value(self):
        return self.parent.ev(self.f.value)

    def is_complete(self):
        return self.value() is not None

    def ok(self):
        v = self.value()
        if v is None:
            return False
        if self.f.requires is not None:
            if self.parent.ev(self.f.requires, this=v) is not True:
                return False
        return True


class ArrayView(object):
    def __init__(self, parent, f, typ, sub, null, declared_size, full):
        self.parent, self.f, self.typ, self.sub, self.null = parent, f, typ, sub, null
        self.declared_size = declared_size
        self.full = full  # the field's whole extent lies inside the buffer
        self.elem_type = M.Type(typ.kind, typ.bits, typ.explicit, typ.name, typ.args, typ.dims[1:])
        self.elem_type.target = typ.target

    def elem_size(self):
        """Size of one element in the parent's unit, or None if not static."""
        t = self.elem_type
        unit = 1 if self.parent.st.kind == "bits" else 8
        n = 1
        for d in t.dims:
            if d is None or d[0] != "n":
                return None
            n *= d[1]
        if t.is_scalar():
            return n * t.bits // unit
        target = t.target
        s = static_size(self.parent.I, target)
        if s is None:
            return None
        if target.kind == "bits" and unit == 8:
            s //= 8
        return n * s

    def count(self):
        es = self.elem_size()
        if self.null or self.sub is None or not es:
            return 0
        n = self.sub.nbits if isinstance(self.sub, Bits) else len(self.sub)
        return n // es

    def element(self, i):
        es = self.elem_size()
        if isinstance(self.sub, Bits):
            sub = Bits(codec.extract(self.sub.value, i * es, es), es)
        else:
            sub = self.sub[i * es : (i + 1) * es]
        return make_view(self.parent, self.f, self.elem_type, sub, False, es, True)

    def is_complete(self):
        return (not self.null) and self.sub is not None and self.full

    def ok(self):
        if not self.is_complete():
            return False
        return all(self.element(i).ok() for i in range(self.count()))


def _upper(e, st):
    """Upper bound of an expression from the ranges of the types it mentions."""
    k = e[0]
    if k == "n":
        return e[1]
    if k == "op" and e[1] == "+":
        return _upper(e[2], st) + _upper(e[3], st)
    if k == "op" and e[1] == "*":
        return _upper(e[2], st) * _upper(e[3], st)
    if k == "max":
        return max(_upper(a, st) for a in e[1])
    if k == "?:":
        return max(_upper(e[2], st), _upper(e[3], st))
    return float("inf")


INF = float("inf")


def _find_member(st, name):
    for f in st.fields:
        for g in [f] + (f.anon or []):
            if g.name == name:
                return g
    return None


def _type_range(t):
    if t is None or t.dims:
        return (-INF, INF)
    if t.kind == "UInt":
        return (0, 2**t.bits - 1)
    if t.kind == "Int":
        return (-(2 ** (t.bits - 1)), 2 ** (t.bits - 1) - 1)
    if t.kind == "Bcd":
        full, part = divmod(t.bits, 4)
        return (0, (2**part) * 10**full - 1)
    return (-INF, INF)


def bounds(e, st, depth=0):
    """(lo, hi) of an integer expression over structure st from the ranges of the types it mentions -
    the same interval reasoning the documentation attributes to the bounds checker ($upper_bound)."""
    if e is None or depth > 12:
        return (-INF, INF)
    k = e[0]
    if k == "n":
        return (e[1], e[1])
    if k == "r":
        cur = st
        g = None
        for i, name in enumerate(e[1]):
            if cur is None:
                return (-INF, INF)
            g = _find_member(cur, name)
            if g is None:
                for pn, pt in getattr(cur, "params", []):
                    if pn == name and i == len(e[1]) - 1:
                        return _type_range(pt)
                return (-INF, INF)
            if i < len(e[1]) - 1:
                t = g.typ
                cur = (g.inline if (g.inline is not None and hasattr(g.inline, "fields")) else (t.target if t is not None else None)) if not g.is_virtual else None
        if g is None:
            return (-INF, INF)
        if g.is_virtual:
            return bounds(g.value, cur if len(e[1]) > 1 else st, depth + 1)
        return _type_range(g.typ)
    if k == "op" and e[1] in ("+", "-", "*"):
        (a, b), (c, d) = bounds(e[2], st, depth + 1), bounds(e[3], st, depth + 1)
        if INF in (abs(a), abs(b), abs(c), abs(d)):
            if e[1] == "+" and a > -INF and c > -INF:
                return (a + c, INF)
            return (-INF, INF)
        if e[1] == "+":
            return (a + c, b + d)
        if e[1] == "-":
            return (a - d, b - c)
        ps = [a * c, a * d, b * c, b * d]
        return (min(ps), max(ps))
    if k == "max":
        bs = [bounds(a, st, depth + 1) for a in e[1]]
        return (max(b[0] for b in bs), max(b[1] for b in bs)) if bs else (-INF, INF)
    if k == "?:":
        (a, b), (c, d) = bounds(e[2], st, depth + 1), bounds(e[3], st, depth + 1)
        return (min(a, c), max(b, d))
    return (-INF, INF)


def certainly_true(c, st, depth=0):
    """A condition that holds for every content (constant folding with Kleene ||/&&;
    $present of a field that is itself certainly present)."""
    if c is None:
        return True
    if depth > 8:
        return False
    k = c[0]
    if k == "b":
        return bool(c[1])
    if k == "present" and len(c[1]) == 1:
        g = _find_member(st, c[1][0])
        if g is None:
            return False
        if not certainly_true(g.cond, st, depth + 1):
            return False
        # a member of an anonymous bits exists iff the container and the member do
        for f in st.fields:
            if f.anon and g in f.anon:
                return certainly_true(f.cond, st, depth + 1)
        return True
    if k == "op" and c[1] == "||":
        return certainly_true(c[2], st, depth + 1) or certainly_true(c[3], st, depth + 1)
    if k == "op" and c[1] == "&&":
        return certainly_true(c[2], st, depth + 1) and certainly_true(c[3], st, depth + 1)
    return False


def constant_size(st):
    """The size when it is the same for every content: the largest end that is certainly there
    is at least as large as every end that can be there."""
    lo = hi = 0
    for f in st.fields:
        if f.is_virtual:
            continue
        (slo, shi), (zlo, zhi) = bounds(f.start, st), bounds(f.size, st)
        hi = max(hi, shi + zhi)
        if certainly_true(f.cond, st) and slo > -INF and zlo > -INF:
            lo = max(lo, slo + zlo)
    return lo if lo == hi else None


def static_size(interp, st):
    """Size of a struct/bits whose layout is constant, else None (in its own unit)."""
    lo = hi = 0
    for f in st.fields:
        if f.is_virtual:
            continue
        if f.start[0] != "n" or f.size[0] != "n":
            return None
        end = f.start[1] + f.size[1]
        hi = max(hi, end)
        if f.cond is None:
            lo = max(lo, end)
    # a conditional field that lies inside the extent of the unconditional ones does not
    # change the size: the size is then the same constant whether or not it is present
    return lo if lo == hi else None


# ---------------------------------------------------------------------------
# observations (same order and keys as cppfarm.driver)
# ---------------------------------------------------------------------------

def fmt_value(typ_kind, v):
    if isinstance(v, bool):
        return "1" if v else "0"
    return str(v)


def observe_struct(view, prefix, out, depth=0):
    out.append((prefix + ".Ok", "1" if view.ok() else "0"))
    out.append((prefix + ".IsComplete", "1" if view.is_complete() else "0"))
    s = view.size()
    out.append((prefix + ".SizeIsKnown", "1" if s is not None else "0"))
    if s is not None:
        out.append((prefix + ".Size", str(s)))
    for f in view.st.fields:
        names = [(f, None)] if not f.is_anon else [(f, None)] + [(g, f) for g in f.anon]
        for g, anon in names:
            if g.is_anon:
                continue  # the anonymous container itself has a reserved name; observe its members
            ex = view.exists_by_name(g.name)
            out.append(("%s.has_%s" % (prefix, g.name), "U" if ex is None else ("T" if ex else "F")))
            if ex is not True:
                continue
            fv = view.field_view_by_name(g.name)
            observe_field(fv, "%s.%s" % (prefix, g.name), out, depth)


def observe_field(fv, key, out, depth):
    if isinstance(fv, StructView):
        if depth < 4:
            observe_struct(fv, key, out, depth + 1)
        return
    if isinstance(fv, ArrayView):
        out.append((key + ".Ok", "1" if fv.ok() else "0", "array" if not fv.full else ""))
        n = fv.count()
        out.append((key + ".Count", str(n), "array" if not fv.full else ""))
        for i in range(min(n, 4)):
            observe_field(fv.element(i), "%s[%d]" % (key, i), out, depth)
        return
    ok = fv.ok()
    out.append((key + ".Ok", "1" if ok else "0"))
    if ok:
        out.append((key + ".Read", fmt_value(None, fv.value())))


# ---------------------------------------------------------------------------
# logical equality (C20): both views must be Ok
# ---------------------------------------------------------------------------

def _float_of(bits, width):
    import struct

    if width == 32:
        return struct.unpack("<f", struct.pack("<I", bits))[0]
    return struct.unpack("<d", struct.pack("<Q", bits))[0]


def fields_equal(fa, fb):
    if isinstance(fa, StructView):
        return views_equal(fa, fb)
    if isinstance(fa, ArrayView):
        n = fa.count()
        if n != fb.count():
            return False
        return all(fields_equal(fa.element(i), fb.element(i)) for i in range(n))
    va, vb = fa.value(), fb.value()
    if fa.typ.kind == "Float":
        return _float_of(va, fa.typ.bits) == _float_of(vb, fb.typ.bits)  # NaN != NaN
    return va == vb


def views_equal(a, b):
    """Equals per cpp-reference: same fields present, present physical fields equal."""
    for f in a.st.fields:
        if f.is_virtual:
            continue
        ea, eb = a.exists(f), b.exists(f)
        if ea is None or eb is None:
            return False
        if ea != eb:
            return False
        if ea:
            if not fields_equal(a.field_view(f), b.field_view(f)):
                return False
    return True
