"""Independent scalar codecs written from doc/language-reference.md.

Bit 0 is the least significant bit of the container read in the field's byte
order; Int and signed enums are two's complement at the field width; Bcd is
decimal per nibble (high partial nibble zero-extended), valid only when every
nibble is <= 9; Float is IEEE-754 by bit pattern.
"""


def container_value(data, byte_order):
    """Unsigned value of a byte string read in the given byte order."""
    if byte_order == "BigEndian":
        return int.from_bytes(data, "big")
    # LittleEndian, or Null (only legal for single bytes)
    return int.from_bytes(data, "little")


def container_bytes(value, nbytes, byte_order):
    return value.to_bytes(nbytes, "big" if byte_order == "BigEndian" else "little")


def extract(value, offset, width):
    return (value >> offset) & ((1 << width) - 1)


def deposit(container, offset, width, field_value):
    mask = ((1 << width) - 1) << offset
    return (container & ~mask) | ((field_value << offset) & mask)


def to_signed(raw, width):
    if raw & (1 << (width - 1)):
        return raw - (1 << width)
    return raw


def from_signed(v, width):
    return v & ((1 << width) - 1)


def bcd_valid(raw, width):
    n = 0
    while n < width:
        if ((raw >> n) & 0xF) > 9:
            return False
        n += 4
    return True


def bcd_value(raw, width):
    out = 0
    mul = 1
    n = 0
    while n < width:
        out += ((raw >> n) & 0xF) * mul
        mul *= 10
        n += 4
    return out


def bcd_encode(v, width):
    raw = 0
    n = 0
    while n < width:
        raw |= (v % 10) << n
        v //= 10
        n += 4
    return raw & ((1 << width) - 1)


def bcd_max(width):
    full, part = divmod(width, 4)
    return (2**part - 1) * 10**full + 10**full - 1 if part else 10**full - 1


def decode(kind, raw, width, signed_enum=False):
    """Returns (valid, value) for raw bits of the given scalar kind."""
    if kind == "UInt":
        return True, raw
    if kind == "Int":
        return True, to_signed(raw, width)
    if kind == "Flag":
        return True, bool(raw)
    if kind == "Bcd":
        return bcd_valid(raw, width), bcd_value(raw, width)
    if kind == "Float":
        return True, raw  # compared by bit pattern
    if kind == "enum":
        return True, (to_signed(raw, width) if signed_enum else raw)
    raise ValueError(kind)


def value_range(kind, width, signed_enum=False):
    if kind == "UInt" or (kind == "enum" and not signed_enum):
        return 0, 2**width - 1
    if kind == "Int" or kind == "enum":
        return -(2 ** (width - 1)), 2 ** (width - 1) - 1
    if kind == "Bcd":
        return 0, bcd_max(width)
    if kind == "Flag":
        return 0, 1
    raise ValueError(kind)
