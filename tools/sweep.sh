#!/bin/bash
# usage: tools/sweep.sh "<seeds>" [tier] ; runs every registered check at each seed on the tree at $EMBOSS_REPO (default /repo)
# and prints one line per (check, seed); evidence/replays go to a scratch directory, not to /verif.
SEEDS=${1:-"1 2 3"}; TIER=${2:-quick}
OUT=${SWEEP_OUT:-/tmp/sweep_$$}; mkdir -p $OUT
HERE="$(cd "$(dirname "$0")/.." && pwd)"
for s in $SEEDS; do
  for c in C01 C02 C03 C04 C05 C06 C07 C08 C09 C10 C11 C12 C13 C14 C15 C16 C17 C18 C19 C20; do
    t0=$(date +%s)
    VERIF_SEED=$s VERIF_REPLAY_DIR=$OUT/replays VERIF_EVIDENCE_DIR=$OUT/evidence $HERE/check $c --tier $TIER > $OUT/$c.$s.log 2>&1; rc=$?
    echo "$c seed=$s rc=$rc t=$(( $(date +%s)-t0 ))s $(grep -c '^VIOLATION' $OUT/$c.$s.log) violations"
  done
done
