#!/usr/bin/env python3
"""Prints the markdown table of kept seeded changes (seeded/<ID>-<k>/meta.json) for DESIGN.md §7."""
import glob, json, os, re
rows = []
for d in sorted(glob.glob(os.path.join(os.path.dirname(os.path.dirname(os.path.abspath(__file__))), "seeded", "*"))):
    try:
        m = json.load(open(os.path.join(d, "meta.json")))
    except Exception:
        continue
    name = os.path.basename(d)
    summ = re.sub(r"\s+", " ", m.get("summary", "")).strip()
    first = re.split(r"(?<=[.;])\s", summ)[0][:230]
    needs = re.sub(r"\s+", " ", m.get("needs", "")).strip()[:200]
    checks = m.get("confirmed", {}).get("checks_on_patched_tree", "")
    caught = " ".join(c.split(":")[0] for c in checks.split() if c.endswith("rc=1")) or "—"
    missed = " ".join(c.split(":")[0] for c in checks.split() if c.endswith("rc=0"))
    rows.append("| %s | %s | %s | %s%s |" % (name, first.replace("|", "/"), needs.replace("|", "/"), caught, (" (not: %s)" % missed) if missed else ""))
print("| seeded change | what it does | needs | caught by (quick tier, seed 1) |")
print("|---|---|---|---|")
print("\n".join(rows))
