#!/bin/bash
# usage: tools/thorough_all.sh [check ids...] ; runs the thorough tier of each registered check once on the tree at
# $EMBOSS_REPO (default /repo); evidence/replays go to a scratch directory, one line per check.
OUT=${SWEEP_OUT:-/tmp/thorough_$$}; mkdir -p $OUT
HERE="$(cd "$(dirname "$0")/.." && pwd)"
LIST="${@:-C05 C10 C13 C14 C15 C19 C12 C11 C08 C09 C20 C02 C03 C06 C18 C16 C17 C01 C04 C07}"
for c in $LIST; do
  t0=$(date +%s)
  VERIF_SEED=${VERIF_SEED:-1} VERIF_REPLAY_DIR=$OUT/replays VERIF_EVIDENCE_DIR=$OUT/evidence $HERE/check $c --tier thorough > $OUT/$c.log 2>&1; rc=$?
  echo "$c thorough rc=$rc t=$(( $(date +%s)-t0 ))s $(grep -c '^VIOLATION' $OUT/$c.log) violations $(grep '^evidence' $OUT/$c.log | cut -c1-160)"
done
