#!/usr/bin/env python3
"""Copies a confirmed seeded change from /tmp/seed_out/<ID>/ into /verif/seeded/<ID>-<k>/."""
import json, os, shutil, sys, glob
pid, k = sys.argv[1], sys.argv[2]
src = "/tmp/seed_out/%s" % pid
dst = "/verif/seeded/%s-%s" % (pid, k)
os.makedirs(dst, exist_ok=True)
shutil.copy(os.path.join(src, "patch%s.diff" % k), os.path.join(dst, "patch.diff"))
demo = glob.glob(os.path.join(src, "demo%s.*" % k))[0]
shutil.copy(demo, os.path.join(dst, os.path.basename(demo).replace("demo%s" % k, "demo")))
meta = json.load(open(os.path.join(src, "meta%s.json" % k)))
conf = json.load(open(os.path.join(src, "confirm%s.json" % k)))
meta["property"] = pid
meta["confirmed"] = {
    "demo_exit_on_clean_tree": conf["demo_clean_rc"],
    "demo_exit_with_patch": conf["demo_patched_rc"],
    "pinned_suite_with_patch": conf["tests"],
    "checks_on_patched_tree": conf["checks"].strip(),
    "how": "tools/confirm_seed.sh %s %s (scratch worktree of /repo HEAD outside /repo and /verif; demo on clean tree, patch applied, demo again, pinned pytest suite, then ./check on the patched tree via EMBOSS_REPO)" % (pid, k),
}
if len(sys.argv) > 3:
    meta["confirmed"]["note"] = sys.argv[3]
json.dump(meta, open(os.path.join(dst, "meta.json"), "w"), indent=1)
print("kept", dst, meta["confirmed"]["checks_on_patched_tree"])
