# Table consumed by tools/mkmanifest.py.  add(id, technique, level text, level note, design ref)
PENDING = {}

add("C16",
    "property-based fuzzing (Hypothesis-seeded generators: random text, token soup, grammar derivations, corpus mutations, model programs) against a totality oracle (no exception, located non-synthetic messages whose rendering quotes the line and column they name); failures bucketed by root cause and ddmin-shrunk",
    "Generated-input search over source sets for uncaught exceptions, non-termination, malformed/ill-located/synthetic diagnostics and rendering failures across front end, back end, format_errors and the embossc CLI; finds shallow and pass-interaction crashes, does not prove absence.",
    "Trusts: Python runtime; a 120 s per-case limit as the termination judge; position (n+1,1) counts as inside an n-line file.",
    "DESIGN.md §4 C16")

add("C10",
    "property-based testing (Hypothesis text strategy + seeded structured generators) against an independent reference tokenizer compiled from doc/grammar.md, plus coverage/position/indentation invariants and prose-derived classification; atheris coverage-guided tier in thorough",
    "Differential + invariant search over generated source texts (token soup, look-alike lexemes, mixed indentation, all Unicode line terminators, invisible characters such as a byte-order mark, mutated corpus; results of two calls share no state). Explores ~10^4 (quick) to ~10^5-10^6 (thorough) texts; finds disagreement with the documented pattern table or broken positions; not exhaustive.",
    "Trusts: Python's re module and str.splitlines/isspace as the definition of lines and whitespace; doc/grammar.md as the specification of patterns.",
    "DESIGN.md §4 C10")

add("C09",
    "exhaustive product-automaton comparison (bisimulation) of loaded vs freshly generated LR(1) tables + production-set equality with doc/grammar.md, plus Hypothesis-seeded differential parsing of generated/mutated token sequences through the tables and through the public entry points (parse_module / parse_expression, same tokens at moved source positions)",
    "The finite part is enumerated completely: every reachable state pair x every symbol must agree on action kind, reduce rule, error message (after default fallback), expected-token set and goto definedness, for the module and expression parsers; the generated part cross-checks ParseResults on ~10^3-10^4 token sequences.",
    "Trusts: the fresh generator as reference (C08 checks it); isomorphism of canonical LR(1) automata; my reader of doc/grammar.md's production listing.",
    "DESIGN.md §4 C09")

add("C08",
    "property-based testing: Hypothesis-generated CFGs x exhaustive strings up to length 5-6, built under 8 PYTHONHASHSEEDs in subprocesses, against an independent Earley recognizer, viable-prefix error-position oracle, derivation checker and bounded ambiguity search; Emboss grammar sentences/mutations differentially",
    "For ~500 (quick) to ~5000 (thorough) small grammars every string up to the length bound is run through the generated parser and the Earley oracle (accept/reject, derivation validity, first-error position and expected-token set on reduced grammars, conflicts on provably ambiguous grammars, no exception from the generator); the Emboss grammar is cross-checked on sampled and mutated sentences.",
    "Trusts: my Earley implementation; bounded ambiguity search (misses are not claims); position clause applied to reduced grammars only.",
    "DESIGN.md §4 C08")

add("C11",
    "property-based testing: seeded generators (noisy renderings of random grammar derivations covering every production, corpus files and parse-preserving mutations) x indent widths, against round-trip (two-sided token equivalence, IR equality), idempotence and self-check-agreement oracles; blocks of comment-only lines with repeated and framing lines; the emboss-format program on several files in place (an exception there is a verdict); ddmin shrinking",
    "Generated-input search over parseable texts x indent widths 1..8 for exceptions, token/IR changes, unparseable output, non-idempotence and self-check disagreement; ~3*10^3 (quick) to ~3*10^5 (thorough) (text,width) cases.",
    "Trusts: tokenizer/parser/module_ir.build_ir as the meaning of 'parses to the same module' (they are checked by C10/C09/C08).",
    "DESIGN.md §4 C11")

add("C17",
    "metamorphic/differential property-based testing over schedules: generated and literal source sets compiled in fresh subprocesses under 6-8 PYTHONHASHSEEDs x batch orders x repetition, a Hypothesis RuleBasedStateMachine for in-process histories (compiler caches left alone; literal A-B-A history; every output also compared with that of a pristine forked process; a family of source sets reusing the same file, type and field names for different facts), and a CLI sample (embossc vs front|back incl. back-end-only rejections, swapped import dirs, reuse of an output directory across fresh processes); oracle = byte equality",
    "Searches for any dependence of diagnostics, IR JSON or header on hash seed, batch order, repetition, import-dir order or process split, over ~150 (quick) to ~700 (thorough) source sets x 8-10 schedules plus stateful histories; cannot exclude dependence on seeds/inputs not tried.",
    "Trusts: equality of formatted strings; anonymous-field numbering is canonicalised only where several modules share a process (as the property allows).",
    "DESIGN.md §4 C17")

add("C18",
    "round-trip property-based testing: IRs of corpus, accepted corpus mutations and generated modules at every stop_before_step through to_json/from_json with ==, a type-strict field walker, re-serialisation and header equality; CLI two-program path vs embossc on a sample with and without --[no-]cc-enum-traits; source sets whose modules define the same names; each program of the split pipeline under its own hash seed; non-canonical spellings of the main file; a module with many imports",
    "Checks from_json(to_json(ir)) == ir (also type-strictly), to_json idempotence and header(ir) == header(reread ir) for ~10^3 (quick) to ~10^4 (thorough) IRs incl. all intermediate pipeline stages; the two real programs are compared with embossc on a sample.",
    "Trusts: the IR classes' own == (cross-checked by an independent walker over field specs); corpus + generators as the space of 'IRs the front end produces'.",
    "DESIGN.md §4 C18")

add("C01",
    "differential property-based testing: generated modules (embgen layout generator) compiled by the real compiler and g++, executed on generated buffers (all prefix lengths of garbage/small/boundary contents, near-Ok buffers found by search with the reference and damaged one byte at a time, extreme values of multi-byte fields, parameter values) against an independent reference interpreter (embref) + metamorphic prefix-monotonicity; always-on switch, stride and parameter families; views over unsigned char, plain char and aligned storage; static min/max size constants bound every reported size",
    "Every front-end pass, the back end, the runtime and g++ are in the loop against an oracle that shares no code with them; ~50 modules x ~100 views (quick) to ~650 x ~150 (thorough). Finds wrong offsets/conditions/decodes/size/Ok logic on the explored shapes; says nothing about shapes the generator does not emit (listed in DESIGN §4 C01).",
    "Trusts: embref as an encoding of the documentation (every disagreement is triaged, DESIGN §3); g++ 12 on x86-64; arrays on truncated buffers are a recorded known finding.",
    "DESIGN.md §4 C01")

add("C13",
    "type-directed property-based testing: a typed expression generator fills every position that demands a type in a base module that must be accepted; single-rule violations (sub-expression or positional expression replaced by one of another type) must be rejected with a located, non-synthetic error and no exception, alone and as an import of the well-typed base occupying the same positions",
    "~400 (quick) to ~10^4 (thorough) well-typed bases and ~3 violations each over all typed positions and operator nestings to depth 4; finds dropped or mis-applied typing rules, crashes on ill-typed input and wrongly rejected well-typed input on the explored template; the catalogue is the one in DESIGN §4 C13.",
    "Trusts: my reading of the operator signatures in language-reference.md; small magnitudes so no other rule interferes; `<` on same-enum operands and same-enum enum values are treated as allowed (pinned by upstream unit tests).",
    "DESIGN.md §4 C13")

add("C15",
    "property-based testing over random reference digraphs realised as struct fields (plain and type-qualified references), enum values and import files (import order shuffled), literal cycles mixing the kinds, against an independent SCC (Kosaraju) oracle for the cycle verdict and cycle sets, and a topological/stability oracle for fields_in_dependency_order; per-case time limit for termination",
    "~10^3 (quick) to ~2*10^4 (thorough) graphs of 2-9 nodes with every edge carrier (start, size, array length, condition, value, type argument); checks cycle error iff cycle, reported name sets == SCCs, order is a stable topological permutation, and termination.",
    "Trusts: my SCC implementation; the intended graph equals the compiler's view of references (edges are only the names I print); 60 s limit as termination judge.",
    "DESIGN.md §4 C15")

add("C14",
    "catalogue-driven property-based testing: generated boundary-heavy realisable modules must be accepted; one documented-rule violation per base (widths, enum range/sign/maximum_bits, bits size/members, array elements, size mismatches, byte-order rules, attribute scope/duplication/values, reserved words, parameter widths, arrays of byte-oriented types in bits, numbers in run-time sized fields) must be rejected without exception",
    "~600 (quick) to ~10^4 (thorough) bases with randomised widths/values at the boundaries and ~2 violations each from a catalogue of ~70 rules; finds unenforced or over-enforced layout/attribute rules and crashes; rules outside the catalogue are not covered.",
    "Trusts: the catalogue as a faithful reading of doc/language-reference.md (fixed-size type in larger field counts as a violation, pinned by constraints_test).",
    "DESIGN.md §4 C14")

add("C12",
    "differential property-based testing: random scope trees (nested types, enums, imports, parameters, abbreviations, name pools that force reuse) with references at every site kind and injected faults, resolved by an independent resolver written from the documented scoping rules; compared with the canonical names in the compiler's IR / its rejections",
    "~800 (quick) to ~2*10^4 (thorough) modules; predicted-valid modules must be accepted with every reference bound to the predicted definition and unique, round-tripping canonical names; predicted-faulty ones must be rejected at a predicted site without exception.",
    "Trusts: embgen/scopes.py's scoping model (from compiler-design.md, probed against the tree); pipeline stopped before annotate_types so only name resolution is judged.",
    "DESIGN.md §4 C12")

add("C05",
    "property-based testing with an independent evaluator: generated expression-heavy modules; every Expression node of the compiler's IR is evaluated under corner/special/random environments and compared with the inferred min/max/modulus/remainder/constant annotations; 64-bit gate checked by evaluation; tightness by exhaustive corner search on the variable-once fragment; import isolation (inferred types of a module are the same alone and next to a sibling module reusing its names)",
    "~200 (quick) to ~5*10^3 (thorough) accepted modules, ~70 expression nodes each, 100-600 environments per node (all 2^k corners when k<=9); finds unsound transfer functions (sign, swapped min/max, modulus), wrong constant folding, unsound gate decisions and loose bounds on the tight fragment.",
    "Trusts: my evaluator of the IR's operator semantics; leaf ranges of UInt/Int/Bcd by width; run-time = not under a constant-typed operator (as constraints.py defines it).",
    "DESIGN.md §4 C05")

add("C02",
    "differential property-based testing over configurations: generated bits/struct modules packing ~40 (type, width, container, offset) configurations each, read through LE/BE/Null fields on pattern and random contents, compared with an independent big-int decoder (embref.codec)",
    "~1000 configurations x 2-3 byte orders x ~90 contents per quick run (key widths and offsets always included), ~20x more in thorough; finds shift/mask/sign-extension/Bcd/byte-order errors in the runtime and wrong view-type selection in the back end. Never exhaustive over contents; aligned fast paths not instantiated.",
    "Trusts: embref.codec as the mathematical definition; g++ 12 on x86-64; signed enums narrower than their C++ type are a recorded known finding.",
    "DESIGN.md §4 C02")

add("C03",
    "differential property-based testing of writes: generated modules with every writable field kind (struct/bits/anonymous/nested, aliases, invertible virtuals, [requires]), random and truncated buffers, boundary values and 1-6 step write sequences through plain and MakeAligned views, through the text reader (numbers the C++ parameter types cannot carry) and with arguments passed as the narrowest integer type; virtual fields over [requires] fields, anonymous-bits members and other virtual fields; CouldWriteValue / TryToWrite / full buffer / read-back compared with the embref write model",
    "~30 modules x ~150 write sequences (quick) to ~400 x 400 (thorough): exact accept/reject boundaries for all widths, byte-exact neighbour preservation in read-modify-write, nothing changed on failure, algebraic inverse of write inference reads back.",
    "Trusts: embref write model; values passed within the argument type of each method (Bcd/enum/virtual methods take their ValueType by value); writability of virtual fields read from the compiler's IR.",
    "DESIGN.md §4 C03")

add("C19",
    "property-based testing: generated enums (boundary values, duplicates, is_signed / maximum_bits / enum_case at every level, nested and inline) compiled with g++ and probed through a generated driver; every probe result (names, values, known-ness, field reads, field writes, text input by number and by name) compared with the value computed directly from the definition",
    "~45 modules x ~5 enums x ~60 probes (quick), 12x more in thorough: underlying type signedness/width, each enumerator per spelling, name->value only for declared Emboss names, value->first declared name or null, EnumIsKnown, operator<< (numeric rendering not compared for 8-bit types), enum field reads of named/unnamed raw values.",
    "Trusts: the model->expectation mapping written from cpp-reference.md / language-reference.md; g++ 12; signed enums in fields narrower than their C++ type are a recorded known finding.",
    "DESIGN.md §4 C19")

add("C20",
    "differential property-based testing: layout-generator structs compiled with g++; buffer pairs (identical, every single-bit flip of Ok buffers, different lengths, not-Ok sources, short destinations) and overlapping windows of one allocation; two views of a parameterised structure built with equal and with different arguments; Equals (both directions) and TryToCopyFrom (result, destination bytes, Ok) compared with embref's logical equality / copy model",
    "~40 modules x ~120 pair commands (quick) to ~500 modules (thorough): Equals <=> same presence and equal present physical fields recursively, symmetric, blind to padding; TryToCopyFrom succeeds exactly when source Ok and destination long enough, copies exactly the source's size with memmove semantics.",
    "Trusts: embref (already validated against the tree by C01); only parameterless top-level structs are paired.",
    "DESIGN.md §4 C20")

add("C06",
    "round-trip property-based testing: layout-generator structs with Skip/Emit marks compiled with g++; for Ok buffers and sampled option sets WriteToString -> UpdateFromText into a zeroed buffer -> WriteToString must reproduce the text; validity predicates on the text (Skip absent, Emit present, dependency order) from the model; numbers a field cannot hold must be refused by UpdateFromText; a Float structure with finite values held to the bit-exact round trip; integer text codec differentially against a Python rendering incl. malformed inputs",
    "~30 modules x ~4 Ok buffers x 5 of 18 option sets (quick), ~12x more in thorough, plus ~2600 codec cases over all 8 integer types x 3 bases x grouping; finds unreadable output, dropped/extra fields, ordering errors, wrong digits/grouping/sign handling and wrap-around on malformed numbers.",
    "Trusts: embref for choosing Ok buffers; text equality of the second WriteToString as the read-back oracle; generated structs with Float fields and single-line+comments output are out of scope as documented (a fixed Float structure is checked).",
    "DESIGN.md §4 C06")

add("C04",
    "sanitizer-instrumented property-based testing + coverage-guided fuzzing (libFuzzer targets generated from the IR, ASan+UBSan): generated modules (layout, write and copy/equals generators) compiled with clang++ -O1 -fsanitize=address,undefined and runtime checks on; generated scripts of checked API calls (observation on every prefix of garbage buffers incl. aligned views, partial text output and read-back, token-soup UpdateFromText, boundary-value write sequences, copies between short/overlapping windows) on exact-size heap buffers; oracle = no sanitizer report / CHECK abort / signal",
    "~30 modules x ~120 commands (quick), ~320 modules in thorough; any out-of-bounds access, executed UB (overflow, bad shift, misaligned typed access, null dereference) or tripped runtime check on the explored scripts is reported with the command prefix as replay.",
    "Trusts: ASan/UBSan as the memory-safety and UB oracle (UB that does not execute is invisible); clang 14 on x86-64 only.",
    "DESIGN.md §4 C04")

add("C07",
    "property-based testing with the C++ compiler as oracle: accepted modules from every generator (layout, write, text, enum, physical-boundary, typed, scope-tree, import pairs, accepted mutants), the repository corpus and an identifier-shape catalogue (13 namespace forms incl. components spelled like runtime namespaces, applied across all sources) are compiled in-process; the emitted header plus an IR-derived full-instantiation driver (every documented member named, every front-end constant static_asserted or checked at run time) is compiled under g++ -std=c++11/14/17 (clang++ in thorough), with and without enum traits, and linked from two translation units and run",
    "~90 accepted modules x 4 configurations (quick) to ~1000 x 7 (thorough); finds emitted code that is ill-formed C++ under some standard, members that fail to instantiate, missing inline/ODR problems at link time, constants that differ from the front end's, and user names that collide with generated identifiers (recorded as known findings, excluded by construction afterwards).",
    "Trusts: g++ 12 / clang++ 14 on x86-64 Linux as the definition of valid C++; cpp-reference.md as the list of members to name; the IR's own annotations as 'the values the front end computed' (their soundness is C05's subject).",
    "DESIGN.md §4 C07")
