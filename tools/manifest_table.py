# Table consumed by tools/mkmanifest.py.  add(id, technique, level text, level note, design ref)
PENDING = {}

add("C16",
    "property-based fuzzing (Hypothesis-seeded generators: random text, token soup, grammar derivations, corpus mutations, model programs) against a totality oracle; failures bucketed by root cause and ddmin-shrunk",
    "Generated-input search over source sets for uncaught exceptions, non-termination, malformed/ill-located/synthetic diagnostics and rendering failures across front end, back end, format_errors and the embossc CLI; finds shallow and pass-interaction crashes, does not prove absence.",
    "Trusts: Python runtime; a 120 s per-case limit as the termination judge; position (n+1,1) counts as inside an n-line file.",
    "DESIGN.md §4 C16")
