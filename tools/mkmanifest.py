#!/usr/bin/env python3
"""Regenerates MANIFEST.json from the table below (keeps it valid by construction)."""
import json
import os

HERE = os.path.dirname(os.path.dirname(os.path.abspath(__file__)))

# id -> (technique, level text, level note, design ref)
CHECKS = {}


def add(pid, technique, text, note, ref):
    CHECKS[pid] = (technique, text, note, ref)


exec(open(os.path.join(HERE, "tools", "manifest_table.py")).read())

ALL = ["C%02d" % i for i in range(1, 21)]
NOT_APPLICABLE = {}
for pid in ALL:
    if pid not in CHECKS:
        NOT_APPLICABLE[pid] = PENDING.get(pid, "check not built yet in this tree; see DESIGN.md §4 for the planned generated-input check")

manifest = {
    "version": 1,
    "setup_cmd": "./setup.sh",
    "hooks": {
        "guard": "GOOGLE_EMBOSS_VERIF",
        "enable": "no source hooks are needed: checks import /repo's working tree in-process (PYTHONPATH) and compile generated headers against /repo/runtime; all compiler state they reset is reachable as module attributes",
        "baseline_off_cmd": "cd /repo && /venv/bin/python -m pytest -q -p no:cacheprovider --timeout=900 --continue-on-collection-errors",
        "source_commits": [],
        "add_only": True,
    },
    "engines": [
        {"name": "vlib", "path": "vlib/", "serves_properties": sorted(CHECKS), "kind_free_text": "runner: Hypothesis-seeded sharded generation, failure bucketing by root-cause signature, ddmin minimisation, replay files, known-findings matching, evidence"},
        {"name": "embgen", "path": "embgen/", "serves_properties": sorted(CHECKS), "kind_free_text": "generators: grammar-derivation sampler, text/token mutators, semantic module model + printer"},
        {"name": "oracles", "path": "oracles/", "serves_properties": ["C08", "C09", "C10", "C12", "C15"], "kind_free_text": "independent reference implementations (Earley, doc-derived tokenizer, resolver, SCC)"},
        {"name": "embref+cppfarm", "path": "embref/ cppfarm/", "serves_properties": ["C01", "C02", "C03", "C04", "C06", "C07", "C19", "C20"], "kind_free_text": "reference interpreter for views + C++ driver generation/build/execution farm"},
    ],
    "checks": [],
    "notes": "All checks: ./check <ID> --tier quick|thorough; VERIF_SEED selects the Hypothesis seed; exit 2 = harness error (never a violation). Known findings: known_findings.json.",
    "not_applicable": [{"property_id": k, "reason": v} for k, v in sorted(NOT_APPLICABLE.items())],
}
for pid in sorted(CHECKS):
    technique, text, note, ref = CHECKS[pid]
    manifest["checks"].append(
        {
            "property_id": pid,
            "quick_cmd": "./check %s --tier quick" % pid,
            "thorough_cmd": "./check %s --tier thorough" % pid,
            "evidence_file": "evidence/%s.json" % pid,
            "replay_cmd_template": "./check %s --replay {path}" % pid,
            "engine": "vlib",
            "level_claimed": {"category": "exploration", "text": text, "design_ref": ref},
            "level_note": note,
            "technique": technique,
        }
    )
with open(os.path.join(HERE, "MANIFEST.json"), "w") as f:
    json.dump(manifest, f, indent=1)
print("wrote MANIFEST.json with %d checks, %d not_applicable" % (len(CHECKS), len(NOT_APPLICABLE)))
