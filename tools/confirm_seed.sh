#!/bin/bash
# usage: tools/confirm_seed.sh <PROP-ID> <k> [check ids...]
# Confirms a seeded change (demo passes clean / fails patched / pinned tests unchanged) in a
# scratch worktree outside /repo and /verif, then runs the given checks (default: PROP-ID)
# against the patched tree.  Writes /tmp/seed_out/<ID>/confirm<k>.json ; removes the worktree.
ID=$1; K=$2; shift 2; CHECKS="${@:-$ID}"
OUT=/tmp/seed_out/$ID
WT=/tmp/confirm_${ID}_$K
PATCH=$OUT/patch$K.diff
DEMO=$(ls $OUT/demo$K.* 2>/dev/null | head -1)
git -C /repo worktree remove --force $WT 2>/dev/null
git -C /repo worktree add -q --detach $WT HEAD || exit 2
run_demo() { case "$DEMO" in *.py) PYTHONPATH=$WT /venv/bin/python "$DEMO" $WT;; *.sh) bash "$DEMO" $WT;; esac; }
run_demo > $OUT/confirm$K.clean.log 2>&1; CLEAN=$?
git -C $WT apply $PATCH || { echo "patch does not apply"; git -C /repo worktree remove --force $WT; exit 2; }
run_demo > $OUT/confirm$K.patched.log 2>&1; PATCHED=$?
if [ -z "$SKIP_TESTS" ]; then
(cd $WT && /venv/bin/python -m pytest -q -p no:cacheprovider --timeout=900 --continue-on-collection-errors 2>&1 | grep -v conda | tail -8) > $OUT/confirm$K.tests.log 2>&1
TESTS=$(grep -E "passed|failed" $OUT/confirm$K.tests.log | tail -1)
else
  # re-check only: keep the recorded result of the pinned suite from the earlier full confirmation
  TESTS=$(python3 -c "import json,sys; print(json.load(open('$OUT/confirm$K.json'))['tests'])" 2>/dev/null || echo "skipped")
fi
RES=""
for C in $CHECKS; do
  VERIF_REPLAY_DIR=$OUT/replays VERIF_EVIDENCE_DIR=$OUT/evidence EMBOSS_REPO=$WT VERIF_SEED=${VERIF_SEED:-1} /verif/check $C --tier quick > $OUT/confirm$K.check_$C.log 2>&1; RC=$?
  RES="$RES $C:rc=$RC"
done
echo "{\"id\":\"$ID\",\"k\":$K,\"demo_clean_rc\":$CLEAN,\"demo_patched_rc\":$PATCHED,\"tests\":\"$TESTS\",\"checks\":\"$RES\"}" | tee $OUT/confirm$K.json
git -C /repo worktree remove --force $WT
# replays written while testing a seeded change do not belong to the unchanged tree
