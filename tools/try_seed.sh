#!/bin/bash
# usage: tools/try_seed.sh <patch.diff> <check ids...>   (env VERIF_SEED, TIER)
# Applies a seeded change to a scratch worktree of /repo HEAD and runs the given checks against it.
P=$1; shift
WT=/tmp/try_$$
git -C /repo worktree add -q --detach $WT HEAD || exit 2
git -C $WT apply $P || { echo "patch does not apply"; git -C /repo worktree remove --force $WT; exit 2; }
for C in "$@"; do
  VERIF_REPLAY_DIR=$WT.replays VERIF_EVIDENCE_DIR=$WT.ev EMBOSS_REPO=$WT /verif/check $C --tier ${TIER:-quick} > $WT.log 2>&1; RC=$?
  echo "$C rc=$RC"; grep -v conda $WT.log | grep "^--- violation\|^evidence" | head -6 | cut -c1-260
done
git -C /repo worktree remove --force $WT; rm -rf $WT.replays $WT.ev $WT.log
