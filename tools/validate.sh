#!/bin/sh
# validates MANIFEST.json and all evidence files against the schemas
/opt/veriftools/pyvenv/bin/python - <<'PY'
import json, jsonschema, glob
m=json.load(open('/verif/MANIFEST.json')); jsonschema.validate(m, json.load(open('/root/.vp/MANIFEST.schema.json'))); print("manifest valid")
s=json.load(open('/root/.vp/EVIDENCE.schema.json'))
for f in sorted(glob.glob('/verif/evidence/*.json')):
    jsonschema.validate(json.load(open(f)), s); print(f, "valid")
PY
