"""Full-instantiation driver generated from the compiler's final IR (property C07).

For the main module of an accepted source set this emits a translation unit
that includes the generated header (twice: include guard), and for every
struct/bits/enum of the module names every documented member: Make*View
overloads, view aliases, Ok/IsComplete/size methods, Equals/CopyFrom family,
text methods, every field accessor with has_*, Read/Write family per field
kind, array element access and iterators, enum helpers; and `static_assert`s
(or, where the header does not expose a constexpr, run-time checks) every
constant the front end computed: enumerator values, fixed sizes, min/max sizes,
constant virtual fields.

The names are derived from the documented naming scheme (cpp-reference.md), the
values from the IR (`type.integer.modular_value` with modulus "infinity",
`type.boolean.value`, `type.enumeration.value`, `fixed_size_in_bits`).
"""

from compiler.util import ir_util
from compiler.util import name_conversion

PRELUDE = r"""
#include <array>
#include <cstdint>
#include <cstdio>
#include <cstring>
#include <sstream>
#include <string>
#include <type_traits>
#include <vector>

static volatile bool verif_never = false;
static int verif_failures = 0;
static void verif_fail(const char *what) { std::printf("CONSTANT-MISMATCH %s\n", what); ++verif_failures; }

using VerifRO = ::emboss::support::ReadOnlyContiguousBuffer;
using VerifRW = ::emboss::support::ReadWriteContiguousBuffer;
using VerifBits = ::emboss::support::OffsetBitBlock<
    ::emboss::support::BitBlock<::emboss::support::LittleEndianByteOrderer<VerifRW>, 64>>;
using VerifBitsRO = ::emboss::support::OffsetBitBlock<
    ::emboss::support::BitBlock<::emboss::support::LittleEndianByteOrderer<VerifRO>, 64>>;

template <class T> static void verif_use(const T &) {}

// read-side members every scalar-like view has (physical scalars and virtual fields)
template <class F> static void verif_scalar_ro(F f) {
  // Unchecked calls are named (instantiated) but never executed
  auto x = verif_never ? f.UncheckedRead() : decltype(f.UncheckedRead())();
  if (f.Ok()) x = f.Read();
  verif_use(x);
  verif_use(F::IsAggregate());
#ifndef VERIF_NO_TEXT
  if (f.Ok()) {  // text output of a value needs a readable value
    std::string s = ::emboss::WriteToString(f);
    s += ::emboss::WriteToString(f, ::emboss::MultilineText());
    s += ::emboss::WriteToString(f, ::emboss::TextOutputOptions().WithNumericBase(16).WithDigitGrouping(true).WithComments(true));
    verif_use(s);
  }
#endif
}
// physical scalar views additionally report completeness and width
template <class F> static void verif_physical_ro(F f) {
  verif_scalar_ro(f);
  verif_use(f.IsComplete());
}
// UInt, Int and Bcd views document SizeInBits()
template <class F> static void verif_physical_sized(F f) { verif_use(f.SizeInBits()); typename F::ValueType x = typename F::ValueType(); if (verif_never) x = f.UncheckedRead(); verif_use(x); }
// write-side members (physical scalars over writable storage, writable virtual fields)
template <class F> static void verif_scalar_rw(F f) {
  auto x = verif_never ? f.UncheckedRead() : decltype(f.UncheckedRead())();
  verif_use(f.CouldWriteValue(x));
  if (f.Ok()) verif_use(f.TryToWrite(f.Read()));
  if (verif_never) { f.Write(x); f.UncheckedWrite(x); }
#ifndef VERIF_NO_TEXT
  if (f.Ok()) { std::string s = ::emboss::WriteToString(f); ::emboss::support::TextStream ts(s); verif_use(f.UpdateFromTextStream(&ts)); }
#endif
}
"""


def cpp_int(v):
    v = int(v)
    if v == -(2**63):
        return "(-9223372036854775807LL - 1)"
    if v < 0:
        return "(%dLL)" % v
    if v >= 2**63:
        return "%dULL" % v
    return "%dLL" % v


class IrDriver(object):
    def __init__(self, ir, text=True, deep=True):
        """text=False: the header was generated without enum traits, so it has no
        text methods and no enum helpers; none of them is named."""
        self.ir = ir
        self.mod = ir.module[0]
        self.traits = text
        self.text = text
        self.deep = deep  # also instantiate every member over aligned storage (costly to compile)
        self.in_bits = False
        self.decls = []
        self.body = []  # statements inside main()
        self.fn_names = {}
        self.counter = 0
        self.stats = {"structs": 0, "enums": 0, "fields": 0, "static_asserts": 0, "runtime_constants": 0, "virtual": 0, "arrays": 0, "aliases": 0, "writable_virtual": 0, "params": 0, "externals_skipped": 0}

    # ---- naming -----------------------------------------------------------
    def module_of(self, canonical_name):
        for m in self.ir.module:
            if m.source_file_name == canonical_name.module_file:
                return m
        raise KeyError(canonical_name.module_file)

    def ns_of_module(self, m):
        attr = ir_util.get_attribute(m.attribute, "namespace")
        text = attr.string_constant.text if attr and attr.string_constant.text else "emboss_generated_code"
        comps = [c for c in text.replace(" ", "").split("::") if c]
        return "::" + "::".join(comps)

    def cpp_path(self, canonical_name):
        return self.ns_of_module(self.module_of(canonical_name)) + "::" + "::".join(canonical_name.object_path)

    def scope_prefix(self, canonical_name):
        """namespace in which <Name>View / Make<Name>View of a type live."""
        p = list(canonical_name.object_path)
        return self.ns_of_module(self.module_of(canonical_name)) + "".join("::" + c for c in p[:-1])

    # ---- helpers ----------------------------------------------------------
    def const_of(self, expr):
        """(kind, value) when the front end computed a constant for expr, else None."""
        t = expr.type
        w = t.which_type
        if w == "integer":
            if t.integer.modulus == "infinity" and t.integer.modular_value is not None:
                return ("int", int(t.integer.modular_value))
        elif w == "boolean":
            if t.boolean.has_field("value"):
                return ("bool", bool(t.boolean.value))
        elif w == "enumeration":
            if t.enumeration.has_field("value") and t.enumeration.value is not None:
                return ("enum", (t.enumeration.name.canonical_name, int(t.enumeration.value)))
        return None

    def const_cpp(self, c):
        kind, v = c
        if kind == "int":
            return cpp_int(v)
        if kind == "bool":
            return "true" if v else "false"
        name, val = v
        return "static_cast<%s>(%s)" % (self.cpp_path(name), cpp_int(val))

    def cmp_expr(self, lhs, c):
        """C++ boolean expression comparing lhs with constant c without sign surprises."""
        kind, v = c
        if kind == "int":
            if v < 0:
                return "(static_cast<long long>(%s) == %s && (%s) < 0)" % (lhs, cpp_int(v), lhs)
            return "((%s) >= 0 && static_cast<unsigned long long>(%s) == %dULL)" % (lhs, lhs, v)
        return "((%s) == %s)" % (lhs, self.const_cpp(c))

    def all_types(self):
        out = []

        def walk(t):
            out.append(t)
            for s in t.subtype:
                walk(s)

        for t in self.mod.type:
            walk(t)
        return out

    def fn(self, t):
        key = tuple(t.name.canonical_name.object_path)
        if key not in self.fn_names:
            self.fn_names[key] = "verif_inst_%d_%s" % (len(self.fn_names), "_".join(key))
        return self.fn_names[key]

    def resolve_type(self, type_ir):
        """-> (dims, kind, type definition or None); kind in struct/bits/enum/prelude/external."""
        dims = 0
        while type_ir.which_type == "array_type":
            dims += 1
            type_ir = type_ir.array_type.base_type
        ref = type_ir.atomic_type.reference
        td = ir_util.find_object(ref, self.ir)
        if td.which_type == "structure":
            kind = "bits" if td.addressable_unit == 1 else "struct"
        elif td.which_type == "enumeration":
            kind = "enum"
        elif ref.canonical_name.module_file == "":
            kind = "prelude"
        else:
            kind = "external"
        return dims, kind, td

    def param_args(self, t):
        args = []
        for p in t.runtime_parameter:
            self.stats["params"] += 1
            pt = p.type
            if pt.which_type == "enumeration":
                args.append("static_cast<%s>(0)" % self.cpp_path(pt.enumeration.name.canonical_name))
            else:
                args.append("0")
        return args

    # ---- enums ------------------------------------------------------------
    def enum_value_names(self, value):
        attr = None
        for a in value.attribute:
            if a.name.text == "enum_case" and a.back_end.text == "cpp":
                attr = a
        cases = ["SHOUTY_CASE"]
        if attr is not None:
            cases = [c.strip() for c in attr.value.string_constant.text.split(",")]
        return [name_conversion.convert_case("SHOUTY_CASE", c, value.name.name.text) for c in cases]

    def emit_enum(self, t):
        self.stats["enums"] += 1
        cpp = self.cpp_path(t.name.canonical_name)
        L = self.body
        L.append("  { // enum %s" % cpp)
        L.append("    using E = %s; using U = std::underlying_type<E>::type;" % cpp)
        L.append("    static_assert(std::is_enum<E>::value, \"enum\"); verif_use(sizeof(U));")
        for v in t.enumeration.value:
            vt = v.value.type
            val = int(vt.integer.modular_value) if vt.which_type == "integer" else int(vt.enumeration.value)
            for n in self.enum_value_names(v):
                self.stats["static_asserts"] += 1
                if val < 0:
                    L.append("    static_assert(std::is_signed<U>::value && static_cast<long long>(E::%s) == %s, \"%s\");" % (n, cpp_int(val), n))
                else:
                    L.append("    static_assert(static_cast<U>(E::%s) >= 0 && static_cast<unsigned long long>(E::%s) == %dULL, \"%s\");" % (n, n, val, n))
        if self.traits:
            L.append("#ifndef VERIF_NO_ENUM_TRAITS")
            L.append("    { E e = static_cast<E>(0); const char *nm = TryToGetNameFromEnum(e); verif_use(nm);")
            for v in t.enumeration.value[:3]:
                L.append("      verif_use(TryToGetEnumFromName(\"%s\", &e));" % v.name.name.text)
            L.append("      verif_use(TryToGetEnumFromName(\"\", &e)); verif_use(TryToGetEnumFromName(nullptr, &e));")
            L.append("      verif_use(EnumIsKnown(e)); std::ostringstream os; os << e; verif_use(os.str()); }")
            L.append("#endif")
        L.append("  }")

    # ---- structs ----------------------------------------------------------
    def field_use(self, L, f, t, expr, writable_storage):
        """Emits uses of one public field reached as C++ expression `expr`."""
        name = f.name.name.text
        wm = f.write_method.which_method
        if ir_util.field_is_virtual(f) and wm != "alias":
            self.stats["virtual"] += 1
            L.append("    verif_scalar_ro(%s);" % expr)
            if wm == "transform":
                self.stats["writable_virtual"] += 1
                L.append("    if (kWritable) verif_rw_if<kWritable>(%s);" % expr)
            return
        # physical field, or alias (takes the aliased field's type)
        target = f
        if wm == "alias":
            self.stats["aliases"] += 1
            target = ir_util.find_object(f.write_method.alias.path[-1], self.ir)
            if ir_util.field_is_virtual(target):
                L.append("    verif_scalar_ro(%s);" % expr)
                return
        dims, kind, td = self.resolve_type(target.type)
        self._type_use(L, expr, dims, kind, td, 0)

    def _type_use(self, L, expr, dims, kind, td, level):
        pad = "    " + "  " * level
        if dims:
            self.stats["arrays"] += 1
            a = "verif_a%d" % level
            L.append("%s{ auto %s = %s; verif_use(%s.Ok()); verif_use(%s.IsComplete()); verif_use(%s.ElementCount());" % (pad, a, expr, a, a, a))
            L.append("%s  verif_use(%s.BackingStorage());" % (pad, a))
            if self.text:
                L.append("%s  if (%s.Ok()) { verif_use(::emboss::WriteToString(%s)); verif_use(::emboss::WriteToString(%s, ::emboss::MultilineText())); }" % (pad, a, a, a))
                L.append("%s  if (kWritable) verif_text_rw_if<kWritable>(%s);" % (pad, a))
            L.append("%s  if (%s.Ok()) verif_use(%s.Equals(%s)); if (verif_never) verif_use(%s.UncheckedEquals(%s));" % (pad, a, a, a, a, a))
            if not self.in_bits:  # the runtime's array iterators need assignable, comparable element storage, which bit storage is not
                L.append("%s  for (auto verif_it%d = %s.begin(); verif_it%d != %s.end(); ++verif_it%d) { verif_use((*verif_it%d).Ok()); break; }" % (pad, level, a, level, a, level, level))
                L.append("%s  for (auto verif_rit%d = %s.rbegin(); verif_rit%d != %s.rend(); ++verif_rit%d) { verif_use((*verif_rit%d).Ok()); break; }" % (pad, level, a, level, a, level, level))
            L.append("%s  if (%s.ElementCount() > 0) {" % (pad, a))
            self._type_use(L, "%s[0]" % a, dims - 1, kind, td, level + 1)
            L.append("%s  } }" % pad)
            return
        if kind in ("prelude", "enum"):
            L.append("%sverif_physical_ro(%s);" % (pad, expr))
            if kind == "prelude" and td.name.name.text in ("UInt", "Int", "Bcd"):
                L.append("%sverif_physical_sized(%s);" % (pad, expr))
            L.append("%sif (kWritable) verif_rw_if<kWritable>(%s);" % (pad, expr))
            return
        if kind == "external":
            self.stats["externals_skipped"] += 1
            L.append("%sverif_use(%s);" % (pad, expr))
            return
        if td.name.canonical_name.module_file != self.mod.source_file_name:
            # a structure of an imported module: its members are instantiated when that module is the main one
            L.append("%sverif_use(%s.Ok()); verif_use(%s.IsComplete());" % (pad, expr, expr))
            return
        L.append("%s%s<kWritable>(%s, depth + 1);" % (pad, self.fn(td), expr))

    def emit_struct_fn(self, t):
        self.stats["structs"] += 1
        st = t.structure
        is_bits = t.addressable_unit == 1
        units = "Bits" if is_bits else "Bytes"
        fn = self.fn(t)
        self.in_bits = is_bits
        L = []
        L.append("template <bool kWritable, class V> static void %s(V v, int depth) {" % fn)
        L.append("  if (depth > 3) return;")
        L.append("  verif_use(v.Ok()); verif_use(v.IsComplete()); verif_use(v.SizeIsKnown());")
        L.append("  if (v.SizeIsKnown()) verif_use(v.SizeIn%s());" % units)
        L.append("  verif_use(v.IntrinsicSizeIn%s().Ok()); if (v.IntrinsicSizeIn%s().Ok()) verif_use(v.IntrinsicSizeIn%s().Read());" % (units, units, units))
        L.append("  verif_use(v.MaxSizeIn%s().Read()); verif_use(v.MinSizeIn%s().Read());" % (units, units))
        L.append("  verif_use(V::IsAggregate()); verif_use(v.BackingStorage());")
        L.append("  if (v.Ok()) verif_use(v.Equals(v)); if (verif_never) verif_use(v.UncheckedEquals(v));")
        if not is_bits:  # cpp-reference documents the CopyFrom family for struct views only
            L.append("  if (kWritable) verif_copy_if<kWritable>(v);")
        if self.text:
            L.append("  { std::string s; if (v.Ok()) { s = ::emboss::WriteToString(v); s += ::emboss::WriteToString(v, ::emboss::MultilineText()); }")
            L.append("    s += ::emboss::WriteToString(v, ::emboss::TextOutputOptions().WithAllowPartialOutput(true).WithComments(true).WithNumericBase(2).WithDigitGrouping(true).Multiline(true).WithIndent(\" \"));")
            L.append("    verif_use(s); if (kWritable) verif_text_rw_if<kWritable>(v); }")
        L.append("  { V verif_copy(v); verif_use(verif_copy.Ok()); }")
        for f in st.field:
            if f.name.is_anonymous:
                continue
            self.stats["fields"] += 1
            raw = f.name.name.text
            name = self.cpp_field_name(raw)
            L.append("  { auto h = v.has_%s(); verif_use(h.Known()); verif_use(h.ValueOr(false)); verif_use(h.ValueOrDefault());" % name)
            self.field_use(L, f, t, "v.%s()" % name, True)
            # constants the front end computed
            if ir_util.field_is_virtual(f) and f.write_method.which_method != "alias":
                c = self.const_of(f.read_transform)
                if c is not None:
                    self.stats["runtime_constants"] += 1
                    L.append("    if (v.%s().Ok() && !%s) verif_fail(\"%s.%s\");" % (name, self.cmp_expr("v.%s().Read()" % name, c), ".".join(t.name.canonical_name.object_path), raw))
            L.append("  }")
        L.append("}")
        self.decls.append("template <bool kWritable, class V> static void %s(V v, int depth);" % fn)
        return "\n".join(L)

    def cpp_field_name(self, raw):
        if raw.startswith("$"):
            return {
                "$size_in_bits": "IntrinsicSizeInBits",
                "$size_in_bytes": "IntrinsicSizeInBytes",
                "$max_size_in_bits": "MaxSizeInBits",
                "$min_size_in_bits": "MinSizeInBits",
                "$max_size_in_bytes": "MaxSizeInBytes",
                "$min_size_in_bytes": "MinSizeInBytes",
            }[raw]
        return raw

    def emit_struct_main(self, t):
        """Statements instantiating every view type of struct/bits t, plus static_asserts."""
        L = self.body
        st = t.structure
        is_bits = t.addressable_unit == 1
        units = "Bits" if is_bits else "Bytes"
        cn = t.name.canonical_name
        name = cn.object_path[-1]
        scope = self.scope_prefix(cn)
        qual = self.cpp_path(cn)  # namespace holding the constant functions
        args = self.param_args(t)
        pre = "".join(a + ", " for a in args)
        fn = self.fn(t)
        L.append("  { // %s %s" % ("bits" if is_bits else "struct", qual))
        if is_bits:
            L.append("    ::emboss::support::BitBlock<::emboss::support::LittleEndianByteOrderer<VerifRW>, 64> verif_bb{VerifRW(buf, 8)};")
            L.append("    VerifBits verif_obb = verif_bb.GetOffsetStorage<1, 0>(0, 64);")
            L.append("    %s::Generic%sView<VerifBits> w(%sverif_obb); %s<true>(w, 0);" % (scope, name, pre, fn))
            L.append("    %s::Generic%sView<VerifBits> dflt; verif_use(dflt.Ok());" % (scope, name))
            view_t = "%s::Generic%sView<VerifBits>" % (scope, name)
        else:
            L.append("    auto w = %s::Make%sView(%sbuf, sizeof buf); %s<true>(w, 0);" % (scope, name, pre, fn))
            L.append("    auto r = %s::Make%sView(%sstatic_cast<const unsigned char *>(buf), sizeof buf); %s<false>(r, 0);" % (scope, name, pre, fn))
            L.append("    auto wc = %s::Make%sView(%sreinterpret_cast<char *>(buf), sizeof buf); verif_use(wc.Ok());" % (scope, name, pre))
            L.append("    auto vv = %s::Make%sView(%s&vec); verif_use(vv.Ok()); auto va = %s::Make%sView(%s&arr); verif_use(va.Ok());" % (scope, name, pre, scope, name, pre))
            L.append("    auto vs = %s::Make%sView(%s&str); verif_use(vs.Ok()); const std::string &cstr = str; auto vcs = %s::Make%sView(%s&cstr); verif_use(vcs.Ok());" % (scope, name, pre, scope, name, pre))
            L.append("    auto al = %s::MakeAligned%sView<unsigned char, 8>(%sbuf, sizeof buf); verif_use(al.Ok()); verif_use(al.IsComplete());%s" % (scope, name, pre, (" %s<true>(al, 2);" % fn) if self.deep else ""))
            L.append("    %s::%sView ro(%sVerifRO(buf, sizeof buf)); %s::%sWriter rw(%sVerifRW(buf, sizeof buf));" % (scope, name, pre, scope, name, pre))
            L.append("    %s::%sView ro2 = rw; ro2 = rw; verif_use(ro2.Ok()); if (ro.Ok()) { verif_use(ro.Equals(rw)); verif_use(rw.Equals(ro)); } verif_use(rw.TryToCopyFrom(ro));" % (scope, name))
            L.append("    %s::%sView dflt; verif_use(dflt.Ok()); verif_use(dflt.IsComplete());" % (scope, name))
            view_t = "%s::%sView" % (scope, name)
        # constants
        for f in st.field:
            if not ir_util.field_is_virtual(f) or f.write_method.which_method == "alias":
                continue
            c = self.const_of(f.read_transform)
            if c is None:
                continue
            raw = f.name.name.text
            cname = self.cpp_field_name(raw)
            exists = f.existence_condition.type.boolean
            if not (exists.has_field("value") and exists.value):
                continue
            # a static_assert where the header exposes a constexpr; detected, not assumed
            self.counter += 1
            det = "verif_is_static_%d" % self.counter
            self.decls.append(
                "template <class V, class = void> struct %s : std::false_type {};\n"
                "template <class V> struct %s<V, decltype((void)V::%s())> : std::true_type {};\n"
                "template <class V, bool = %s<V>::value> struct %s_chk { static constexpr bool ok = true; static constexpr bool is_static = false; };\n"
                "template <class V> struct %s_chk<V, true> { static constexpr bool ok = %s; static constexpr bool is_static = true; };"
                % (det, det, cname, det, det, det, self.cmp_expr("V::%s().Read()" % cname, c))
            )
            self.stats["static_asserts"] += 1
            L.append("    static_assert(%s_chk<%s>::ok, \"%s.%s\");" % (det, view_t, name, raw))
            L.append("    if (%s_chk<%s>::is_static) { ++verif_static_constants; static_assert(!%s_chk<%s>::is_static || %s, \"%s::%s()\"); }" % (det, view_t, det, view_t, "true", qual, cname))
            if not raw.startswith("$") or True:
                # documented: Foo::register_number() is a constexpr function when the field is a compile-time constant
                L.append("    verif_constfn_%d<%s>();" % (self.counter, view_t))
                self.decls.append(
                    "template <class V> static typename std::enable_if<%s<V>::value>::type verif_constfn_%d() { static_assert(%s, \"%s::%s()\"); }\n"
                    "template <class V> static typename std::enable_if<!%s<V>::value>::type verif_constfn_%d() {}"
                    % (det, self.counter, self.cmp_expr("%s::%s()" % (qual, cname), c), qual, cname, det, self.counter)
                )
        # SizeIn<units>() / SizeIsKnown() are static constexpr exactly when the header exposes a constant size
        size_field = [f for f in st.field if f.name.name.text == "$size_in_%s" % units.lower()]
        if size_field:
            c = self.const_of(size_field[0].read_transform)
            if c is not None:
                self.counter += 1
                det = "verif_is_static_%d" % self.counter
                self.decls.append(
                    "template <class V, class = void> struct %s : std::false_type {};\n"
                    "template <class V> struct %s<V, decltype((void)V::SizeIn%s())> : std::true_type {};\n"
                    "template <class V, bool = %s<V>::value> struct %s_chk { static constexpr bool ok = true; };\n"
                    "template <class V> struct %s_chk<V, true> { static constexpr bool ok = V::SizeIsKnown() && %s; };"
                    % (det, det, units, det, det, det, self.cmp_expr("V::SizeIn%s()" % units, c))
                )
                self.stats["static_asserts"] += 1
                L.append("    static_assert(%s_chk<%s>::ok, \"%s static size\");" % (det, view_t, name))
        L.append("  }")

    def _helpers(self):
        return r"""
template <bool W, class F> static typename std::enable_if<W>::type verif_rw_if(F f) { verif_scalar_rw(f); }
template <bool W, class F> static typename std::enable_if<!W>::type verif_rw_if(F) {}
#ifndef VERIF_NO_TEXT
template <bool W, class V> static typename std::enable_if<W>::type verif_text_rw_if(V v) {
  std::string s = ::emboss::WriteToString(v, ::emboss::TextOutputOptions().WithAllowPartialOutput(true));
  verif_use(::emboss::UpdateFromText(v, s)); verif_use(::emboss::UpdateFromText(v, std::string("{}")));
  ::emboss::support::TextStream verif_ts(s); verif_use(v.UpdateFromTextStream(&verif_ts));
}
template <bool W, class V> static typename std::enable_if<!W>::type verif_text_rw_if(V) {}
#endif
template <bool W, class V> static typename std::enable_if<W>::type verif_copy_if(V v) {
  verif_use(v.TryToCopyFrom(v)); if (verif_never) { v.CopyFrom(v); v.UncheckedCopyFrom(v); }
}
template <bool W, class V> static typename std::enable_if<!W>::type verif_copy_if(V) {}
static int verif_static_constants = 0;
"""

    def source(self, header_name):
        types = self.all_types()
        fns = []
        types = [t for t in types if not t.name.is_anonymous]
        for t in types:
            if t.which_type == "structure":
                fns.append(self.emit_struct_fn(t))
        for t in types:
            if t.which_type == "enumeration":
                self.emit_enum(t)
            elif t.which_type == "structure":
                self.emit_struct_main(t)
        helpers = self._helpers()
        parts = ([] if self.text else ["#define VERIF_NO_TEXT 1", "#define VERIF_NO_ENUM_TRAITS 1"]) + ['#include "%s"' % header_name, '#include "%s"' % header_name, PRELUDE, helpers]
        parts += self.decls
        parts += fns
        parts.append("int verif_other_tu();")
        parts.append("int main() {")
        parts.append("  alignas(8) static unsigned char buf[4096]; std::memset(buf, 0, sizeof buf);")
        parts.append("  std::vector<unsigned char> vec(64, 0); std::array<char, 64> arr{}; std::string str(64, '\\0');")
        parts += self.body
        parts.append("  std::printf(\"STATIC-CONSTANTS %d\\n\", verif_static_constants);")
        parts.append("  std::printf(\"DONE %d\\n\", verif_failures + verif_other_tu());")
        parts.append("  return verif_failures ? 3 : 0;")
        parts.append("}")
        return "\n".join(parts) + "\n"

    def fuzz_source(self, header_name):
        """A libFuzzer target over the same instantiation functions: the input selects a structure,
        parameter values and an exact-size heap buffer; every checked member is then called on real
        data (reads after Ok, writes of values read, text output and input, copy and equality against a
        second buffer of another length).  Only byte-oriented structures are entry points."""
        types = [t for t in self.all_types() if not t.name.is_anonymous]
        fns = [self.emit_struct_fn(t) for t in types if t.which_type == "structure"]
        helpers = self._helpers()
        cases = []
        entry = [t for t in types if t.which_type == "structure" and t.addressable_unit != 1]
        for i, t in enumerate(entry):
            cn = t.name.canonical_name
            name = cn.object_path[-1]
            scope = self.scope_prefix(cn)
            args = []
            for j, p in enumerate(t.runtime_parameter):
                if p.type.which_type == "enumeration":
                    args.append("static_cast<%s>(par[%d])" % (self.cpp_path(p.type.enumeration.name.canonical_name), j % 4))
                else:
                    args.append("par[%d]" % (j % 4))
            pre = "".join(a + ", " for a in args)
            fn = self.fn(t)
            cases.append(
                "    case %d: { auto w = %s::Make%sView(%sbuf, n); %s<true>(w, 0);\n"
                "      auto w2 = %s::Make%sView(%sbuf2, n2); verif_use(w2.TryToCopyFrom(w)); verif_use(w.TryToCopyFrom(w2));\n"
                "      if (w.Ok() && w2.Ok()) { verif_use(w.Equals(w2)); verif_use(w2.Equals(w)); }\n"
                "      auto al = %s::MakeAligned%sView<unsigned char, 8>(%sabuf, n); %s<true>(al, 1); break; }" % (i, scope, name, pre, fn, scope, name, pre, scope, name, pre, fn)
            )
        body = r"""
extern "C" int LLVMFuzzerTestOneInput(const unsigned char *data, std::size_t size) {
  if (size < 6) return 0;
  unsigned sel = data[0];
  unsigned par[4] = {data[1], data[2], data[3], data[4]};
  std::size_t n2 = data[5];
  data += 6; size -= 6;
  std::size_t n = size;
  unsigned char *buf = new unsigned char[n]; if (n) std::memcpy(buf, data, n);
  if (n2 > 2 * n + 4) n2 = n / 2;
  unsigned char *buf2 = new unsigned char[n2]; for (std::size_t i = 0; i < n2; ++i) buf2[i] = i < n ? data[n - 1 - i] : static_cast<unsigned char>(i);
  unsigned char *abuf = static_cast<unsigned char *>(aligned_alloc(16, ((n + 15) / 16 + 1) * 16)); if (n) std::memcpy(abuf, data, n);
  switch (sel %% %d) {
%s
    default: break;
  }
  delete[] buf; delete[] buf2; free(abuf);
  return 0;
}
""" % (max(1, len(entry)), "\n".join(cases))
        parts = ['#include "%s"' % header_name, "#include <cstdlib>", PRELUDE, helpers] + self.decls + fns + [body]
        return "\n".join(parts) + "\n", len(entry)

    def second_tu(self, header_name):
        """A second translation unit including the same header (ODR / missing inline)."""
        return '#include "%s"\nint verif_other_tu() { return 0; }\n' % header_name
