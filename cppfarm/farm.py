"""Build and run generated C++ drivers in parallel, in a private temp dir."""

import concurrent.futures as cf
import os
import subprocess

REPO = os.environ.get("EMBOSS_REPO", "/repo")

GXX = ["g++", "-std=c++14", "-O0", "-w"]
CLANG_SAN = ["clang++", "-std=c++14", "-O1", "-g", "-w", "-fsanitize=address,undefined", "-fno-sanitize-recover=all", "-fno-omit-frame-pointer"]


def write_files(d, files):
    os.makedirs(d, exist_ok=True)
    for name, text in files.items():
        p = os.path.join(d, name)
        os.makedirs(os.path.dirname(p), exist_ok=True)
        with open(p, "w") as f:
            f.write(text)


def _build_one(job):
    d, src, exe, cmd, extra = job
    args = list(cmd) + list(extra) + ["-I", REPO, "-I", d, os.path.join(d, src), "-o", os.path.join(d, exe)]
    try:
        p = subprocess.run(args, capture_output=True, text=True, timeout=900)
    except subprocess.TimeoutExpired:
        return (d, False, "compiler timeout")
    return (d, p.returncode == 0, (p.stderr or "")[-6000:])


def build_all(jobs, workers=None):
    """jobs: list of (dir, src name, exe name, compiler cmd list, extra flags).
    Returns list of (dir, ok, stderr tail) in job order."""
    workers = workers or int(os.environ.get("VERIF_PROCS", "16"))
    with cf.ThreadPoolExecutor(max_workers=workers) as ex:
        return list(ex.map(_build_one, jobs))


def syntax_only(jobs, workers=None):
    """jobs: (dir, src, compiler cmd, extra flags) -> (dir, ok, stderr)."""

    def one(job):
        d, src, cmd, extra = job
        args = list(cmd) + list(extra) + ["-fsyntax-only", "-I", REPO, "-I", d, os.path.join(d, src)]
        try:
            p = subprocess.run(args, capture_output=True, text=True, timeout=900)
        except subprocess.TimeoutExpired:
            return (d, False, "compiler timeout")
        return (d, p.returncode == 0, (p.stderr or "")[-6000:])

    workers = workers or int(os.environ.get("VERIF_PROCS", "16"))
    with cf.ThreadPoolExecutor(max_workers=workers) as ex:
        return list(ex.map(one, jobs))


def run_exe(d, exe, script, timeout=300, env=None):
    """Runs d/exe with `script` on stdin. Returns (returncode, stdout, stderr)."""
    e = dict(os.environ)
    e.setdefault("ASAN_OPTIONS", "detect_leaks=0:abort_on_error=0:allocator_may_return_null=1")
    e.setdefault("UBSAN_OPTIONS", "print_stacktrace=1:halt_on_error=1")
    if env:
        e.update(env)
    try:
        p = subprocess.run([os.path.join(d, exe)], input=script, capture_output=True, text=True, timeout=timeout, env=e, errors="replace")
    except subprocess.TimeoutExpired:
        return (-999, "", "timeout")
    return (p.returncode, p.stdout, p.stderr)


def run_all(jobs, workers=None):
    """jobs: list of (dir, exe, script) -> list of (rc, out, err)."""
    workers = workers or int(os.environ.get("VERIF_PROCS", "16"))
    with cf.ThreadPoolExecutor(max_workers=workers) as ex:
        return list(ex.map(lambda j: run_exe(*j), jobs))
