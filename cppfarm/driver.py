"""Generates the C++ observation driver for an embgen model.

The driver reads commands on stdin, one per line:
  V <struct-index> <hex-bytes-or-dash> [param ...]     observe a view
and prints `key=value` lines followed by `END` for each command, mirroring
embref.interp.observe_struct exactly (same keys, same order).
"""

from embgen import model as M

PRELUDE = r"""
#include <cstdint>
#include <cstdio>
#include <cstdlib>
#include <cstring>
#include <iostream>
#include <sstream>
#include <string>
#include <type_traits>
#include <utility>
#include <vector>

static void P(const std::string &k, const std::string &v) { std::printf("%s=%s\n", k.c_str(), v.c_str()); }
static void P(const std::string &k, bool v) { P(k, std::string(v ? "1" : "0")); }

static std::string S(bool v) { return v ? "1" : "0"; }
static std::string S(float v) { std::uint32_t u; std::memcpy(&u, &v, 4); return std::to_string(u); }
static std::string S(double v) { std::uint64_t u; std::memcpy(&u, &v, 8); return std::to_string(u); }
template <class T>
static typename std::enable_if<std::is_integral<T>::value && std::is_signed<T>::value && !std::is_same<T, bool>::value, std::string>::type
S(T v) { return std::to_string(static_cast<long long>(v)); }
template <class T>
static typename std::enable_if<std::is_integral<T>::value && std::is_unsigned<T>::value && !std::is_same<T, bool>::value, std::string>::type
S(T v) { return std::to_string(static_cast<unsigned long long>(v)); }
template <class T>
static typename std::enable_if<std::is_enum<T>::value, std::string>::type
S(T v) { return S(static_cast<typename std::underlying_type<T>::type>(v)); }

template <class M> static std::string H(M m) { return m.Known() ? (m.Value() ? "T" : "F") : "U"; }

template <class V> static void obs_scalar(const std::string &k, V v) {
  bool ok = v.Ok();
  P(k + ".Ok", ok);
  if (ok) P(k + ".Read", S(v.Read()));
}

static std::vector<unsigned char> unhex(const std::string &h) {
  std::vector<unsigned char> out;
  if (h == "-") return out;
  for (size_t i = 0; i + 1 < h.size(); i += 2) out.push_back(static_cast<unsigned char>(std::stoi(h.substr(i, 2), nullptr, 16)));
  return out;
}
static std::string tohex(const unsigned char *p, size_t n) {
  static const char *d = "0123456789abcdef";
  std::string s;
  for (size_t i = 0; i < n; ++i) { s += d[p[i] >> 4]; s += d[p[i] & 15]; }
  return s.empty() ? "-" : s;
}
"""


def all_structs(module):
    out = []

    def walk(t, path):
        if isinstance(t, M.Enum):
            return
        out.append((t, path + [t.name]))
        for s in t.subtypes:
            walk(s, path + [t.name])
        for f in t.fields:
            for g in [f] + (f.anon or []):
                if g.inline is not None and not isinstance(g.inline, M.Enum):
                    walk(g.inline, path + [t.name])

    for t in module.types:
        walk(t, [])
    return out


def cpp_ident(path):
    return "_".join(path)


def cpp_ns(module):
    ns = module.namespace or "emboss_generated_code"
    return "::" + ns.strip(":") if not ns.startswith("::") else ns


def cpp_type_name(module, path):
    return cpp_ns(module) + "::" + "::".join(path)


class DriverGen(object):
    def __init__(self, modules, main=""):
        self.modules = modules  # alias -> Module ('' = main)
        self.m = modules[main]
        self.obs_names = {}  # id(struct) -> function name
        self.out = []
        n = 0
        for alias, mod in modules.items():
            for st, path in all_structs(mod):
                self.obs_names[id(st)] = "obs_%d_%s" % (n, cpp_ident(path))
                n += 1

    def field_obs(self, f, expr, key, lines, ind, depth_var="depth"):
        """Emits code observing view expression `expr` of field f's type."""
        self._type_obs(f, f.typ, expr, key, lines, ind, 0)

    def _type_obs(self, f, typ, expr, key, lines, ind, level):
        pad = "  " * ind
        if typ.dims:
            a = "a%d" % level
            i = "i%d" % level
            lines.append("%s{ auto %s = %s; P(%s + \".Ok\", %s.Ok()); std::size_t n%d = %s.ElementCount(); P(%s + \".Count\", std::to_string(n%d));" % (pad, a, expr, key, a, level, a, key, level))
            lines.append("%s  for (std::size_t %s = 0; %s < n%d && %s < 4; ++%s) {" % (pad, i, i, level, i, i))
            sub = M.Type(typ.kind, typ.bits, typ.explicit, typ.name, typ.args, typ.dims[1:])
            sub.target = typ.target
            k2 = "(%s + \"[\" + std::to_string(%s) + \"]\")" % (key, i)
            self._type_obs(f, sub, "%s[%s]" % (a, i), k2, lines, ind + 2, level + 1)
            lines.append("%s  } }" % pad)
            return
        if typ.is_scalar():
            lines.append("%sobs_scalar(%s, %s);" % (pad, key, expr))
            return
        target = f.inline if (f.inline is not None and not isinstance(f.inline, M.Enum)) else typ.target
        lines.append("%sif (depth < 4) %s(%s, %s, depth + 1);" % (pad, self.obs_names[id(target)], key, expr))

    def struct_fn(self, st):
        name = self.obs_names[id(st)]
        size_fn = "SizeInBits" if st.kind == "bits" else "SizeInBytes"
        L = []
        L.append("template <class V> static void %s(const std::string &p, V v, int depth) {" % name)
        L.append("  P(p + \".Ok\", v.Ok());")
        L.append("  P(p + \".IsComplete\", v.IsComplete());")
        L.append("  bool sk = v.SizeIsKnown(); P(p + \".SizeIsKnown\", sk);")
        L.append("  if (sk) P(p + \".Size\", std::to_string(static_cast<unsigned long long>(v.%s())));" % size_fn)
        unit = "Bits" if st.kind == "bits" else "Bytes"
        L.append("  P(p + \".StaticMinSize\", S(v.MinSizeIn%s().Read())); P(p + \".StaticMaxSize\", S(v.MaxSizeIn%s().Read()));" % (unit, unit))
        for f in st.fields:
            for g in ([f] if not f.is_anon else f.anon):
                L.append("  { auto h = v.has_%s(); P(p + \".has_%s\", H(h));" % (g.name, g.name))
                L.append("    if (h.ValueOr(false)) {")
                if g.is_virtual:
                    L.append("      obs_scalar(p + \".%s\", v.%s());" % (g.name, g.name))
                else:
                    self.field_obs(g, "v.%s()" % g.name, "(p + \".%s\")" % g.name, L, 3)
                L.append("    } }")
        L.append("}")
        return "\n".join(L)

    def fwd(self, st):
        return "template <class V> static void %s(const std::string &p, V v, int depth);" % self.obs_names[id(st)]

    def param_cast(self, ptype, idx):
        idx = str(idx)
        if ptype.kind == "enum":
            return "static_cast<%s>(std::stoll(tok[%s]))" % (self.enum_cpp_name(ptype), idx)
        if ptype.kind == "Int":
            return "std::stoll(tok[%s])" % idx
        return "std::stoull(tok[%s])" % idx

    def enum_cpp_name(self, ptype):
        return ptype.cpp_name

    def top_structs(self):
        return [t for t in self.m.types if isinstance(t, M.Struct) and t.kind == "struct"]

    def main_fn(self, body_extra=""):
        L = ["int main() {", "  std::string line;", "  while (std::getline(std::cin, line)) {", "    std::istringstream is(line); std::vector<std::string> tok; std::string t; while (is >> t) tok.push_back(t);", "    if (tok.empty()) continue;"]
        L.append("    if (tok[0] == \"V\") {")
        L.append("      int si = std::stoi(tok[1]); std::vector<unsigned char> b = unhex(tok[2]);")
        L.append("      unsigned char *buf = new unsigned char[b.size()]; if (!b.empty()) std::memcpy(buf, b.data(), b.size());")
        L.append("      switch (si) {")
        for i, st in enumerate(self.top_structs()):
            args = "".join(self.param_cast(pt, 3 + k) + ", " for k, (pn, pt) in enumerate(st.params))
            L.append("        case %d: { auto v = %s::Make%sView(%sbuf, b.size()); %s(\"v\", v, 0); break; }" % (i, cpp_ns(self.m), st.name, args, self.obs_names[id(st)]))
        L.append("        default: break;")
        L.append("      }")
        L.append("      delete[] buf;")
        L.append("    }")
        L.append("    if (tok[0] == \"H\") {")
        L.append("      // H <struct> <hex> [params]: the same bytes through a view over plain `const char` (signed on this platform)")
        L.append("      int si = std::stoi(tok[1]); std::vector<unsigned char> b = unhex(tok[2]);")
        L.append("      char *buf = new char[b.size()]; if (!b.empty()) std::memcpy(buf, b.data(), b.size());")
        L.append("      switch (si) {")
        for i, st in enumerate(self.top_structs()):
            args = "".join(self.param_cast(pt, 3 + k) + ", " for k, (pn, pt) in enumerate(st.params))
            L.append("        case %d: { auto v = %s::Make%sView(%sstatic_cast<const char *>(buf), b.size()); %s(\"v\", v, 0); break; }" % (i, cpp_ns(self.m), st.name, args, self.obs_names[id(st)]))
        L.append("        default: break;")
        L.append("      }")
        L.append("      delete[] buf;")
        L.append("    }")
        L.append("    if (tok[0] == \"A\") {")
        L.append("      // A <struct> <alignment> <hex> [params]: the same view through MakeAligned...View over aligned storage")
        L.append("      int si = std::stoi(tok[1]); int al = std::stoi(tok[2]); std::vector<unsigned char> b = unhex(tok[3]);")
        L.append("      std::size_t cap = ((b.size() + 15) / 16 + 1) * 16; unsigned char *buf = static_cast<unsigned char *>(aligned_alloc(16, cap)); if (!b.empty()) std::memcpy(buf, b.data(), b.size());")
        L.append("      switch (si * 10 + (al == 8 ? 3 : al == 4 ? 2 : 1)) {")
        for i, st in enumerate(self.top_structs()):
            args = "".join(self.param_cast(pt, 4 + k) + ", " for k, (pn, pt) in enumerate(st.params))
            for code, al in ((1, 2), (2, 4), (3, 8)):
                L.append("        case %d: { auto v = %s::MakeAligned%sView<unsigned char, %d>(%sbuf, b.size()); %s(\"v\", v, 0); break; }" % (i * 10 + code, cpp_ns(self.m), st.name, al, args, self.obs_names[id(st)]))
        L.append("        default: break;")
        L.append("      }")
        L.append("      free(buf);")
        L.append("    }")
        L.append("    if (tok[0] == \"S\" || tok[0] == \"U\") {")
        L.append("      // S <struct> <hex> [params]: text output with partial output allowed, read back into a copy, iterate arrays")
        L.append("      // U <struct> <hex> <hex-of-text> [params]: UpdateFromText with an arbitrary text")
        L.append("      int si = std::stoi(tok[1]); std::vector<unsigned char> b = unhex(tok[2]);")
        L.append("      unsigned char *buf = new unsigned char[b.size()]; if (!b.empty()) std::memcpy(buf, b.data(), b.size());")
        L.append("      unsigned char *cpy = new unsigned char[b.size()]; if (!b.empty()) std::memcpy(cpy, b.data(), b.size());")
        L.append("      std::string utext; int pbase = 3; if (tok[0] == \"U\") { std::vector<unsigned char> t = unhex(tok[3]); utext.assign(t.begin(), t.end()); pbase = 4; }")
        L.append("      switch (si) {")
        for i, st in enumerate(self.top_structs()):
            args = "".join(self.param_cast(pt, "pbase + %d" % k) + ", " for k, (pn, pt) in enumerate(st.params))
            mk = "%s::Make%sView" % (cpp_ns(self.m), st.name)
            L.append("        case %d: { auto v = %s(%sbuf, b.size()); auto w = %s(%scpy, b.size());" % (i, mk, args, mk, args))
            L.append("          if (tok[0] == \"U\") { bool r = ::emboss::UpdateFromText(w, utext); P(\"u\", r); P(\"okW\", w.Ok()); if (r) %s(\"w\", w, 0); }" % self.obs_names[id(st)])
            L.append("          else { for (int o = 0; o < 4; ++o) { auto opts = ::emboss::TextOutputOptions().WithAllowPartialOutput(true).Multiline(o & 1).WithComments(o & 2).WithIndent(\"  \").WithNumericBase(o == 3 ? 16 : 10).WithDigitGrouping(o == 2);")
            L.append("              std::string s = ::emboss::WriteToString(v, opts); P(\"len\", std::to_string(s.size())); bool r = ::emboss::UpdateFromText(w, s); P(\"u\", r); } P(\"okW\", w.Ok()); }")
            L.append("          break; }")
        L.append("        default: break;")
        L.append("      }")
        L.append("      delete[] buf; delete[] cpy;")
        L.append("    }")
        L.append(body_extra)
        L.append("    std::printf(\"END\\n\"); std::fflush(stdout);")
        L.append("  }")
        L.append("  return 0;")
        L.append("}")
        return "\n".join(L)

    def source(self, header_name, extra_fns="", main_extra=""):
        parts = ['#include "%s"' % header_name, PRELUDE]
        structs = []
        for alias, mod in self.modules.items():
            structs += [st for st, _ in all_structs(mod)]
        parts += [self.fwd(st) for st in structs]
        parts += [self.struct_fn(st) for st in structs]
        parts.append(extra_fns)
        parts.append(self.main_fn(main_extra))
        return "\n".join(parts) + "\n"


def parse_output(text):
    """Splits driver stdout into per-command lists of (key, value)."""
    cases = []
    cur = []
    for line in text.split("\n"):
        if line == "END":
            cases.append(cur)
            cur = []
        elif "=" in line:
            k, v = line.split("=", 1)
            cur.append((k, v))
    return cases
