"""In-process access to the compiler under test (imported from $EMBOSS_REPO)."""

import os
import signal
import sys
import traceback

from compiler.back_end.cpp import header_generator
from compiler.front_end import glue
from compiler.front_end import module_ir
from compiler.util import error as emb_error

REPO = os.environ.get("EMBOSS_REPO", "/repo")


class Timeout(Exception):
    pass


def _alarm(signum, frame):
    raise Timeout()


class time_limit(object):
    def __init__(self, seconds):
        self.seconds = seconds

    def __enter__(self):
        self.old = signal.signal(signal.SIGALRM, _alarm)
        signal.setitimer(signal.ITIMER_REAL, self.seconds)

    def __exit__(self, *a):
        signal.setitimer(signal.ITIMER_REAL, 0)
        signal.signal(signal.SIGALRM, self.old)
        return False


def reset_state():
    """Drops per-compilation global state the compiler keeps (the prelude's parse stays,
    for speed).  Works whatever the cache is keyed by: (text, name) pairs or plain names."""
    def is_prelude(k):
        return k == "" or (isinstance(k, tuple) and len(k) > 1 and k[1] == "")

    try:
        for k in [k for k in glue._cached_modules if not is_prelude(k)]:
            del glue._cached_modules[k]
    except Exception:
        try:
            glue._cached_modules.clear()
        except Exception:
            pass


def exc_signature(exc_info=None):
    """(type name, innermost frame inside the repo's compiler/ tree)."""
    et, ev, tb = exc_info or sys.exc_info()
    frames = traceback.extract_tb(tb)
    inner = None
    for fr in frames:
        fn = fr.filename.replace("\\", "/")
        if "/compiler/" in fn and "/verif/" not in fn:
            inner = "%s:%s" % (fn.split("/compiler/", 1)[1], fr.name)
    return {"exc": et.__name__, "frame": inner or "<outside compiler>"}


class Result(object):
    __slots__ = ("ir", "errors", "header", "exc", "exc_sig", "exc_text", "read", "debug", "stage", "timeout", "front_mismatch")

    def __init__(self):
        self.ir = None
        self.errors = []
        self.header = None
        self.exc = None
        self.exc_sig = None
        self.exc_text = None
        self.read = []
        self.debug = None
        self.stage = "front"
        self.timeout = False
        self.front_mismatch = None

    @property
    def accepted(self):
        return self.exc is None and not self.errors and self.ir is not None


def reader_for(files, read_log=None):
    def reader(name):
        if read_log is not None:
            read_log.append(name)
        if name in files:
            return files[name], None
        return None, ["No such file: %s" % name]

    return reader


def compile_files(files, main="m.emb", stop_before=None, gen_header=True, limit_s=None, enum_traits=True, reset=True):
    """Runs front end (+ back end) in-process; never raises for compiler faults.
    reset=False leaves the compiler's process-wide state (module cache, counters) as a real
    long-running process would have it."""
    r = Result()
    if reset:
        reset_state()
    try:
        if limit_s:
            with time_limit(limit_s):
                _compile(r, files, main, stop_before, gen_header, enum_traits)
        else:
            _compile(r, files, main, stop_before, gen_header, enum_traits)
    except Timeout:
        r.timeout = True
        r.exc = "Timeout"
        r.exc_sig = {"exc": "Timeout", "frame": r.stage}
        r.exc_text = "time limit of %ss exceeded in stage %s" % (limit_s, r.stage)
    except RecursionError:
        r.exc = "RecursionError"
        r.exc_sig = exc_signature()
        r.exc_text = "RecursionError\n" + "".join(traceback.format_exc().splitlines(True)[-12:])
    except Exception as e:  # noqa
        r.exc = type(e).__name__
        r.exc_sig = exc_signature()
        r.exc_text = traceback.format_exc()
    return r


def _compile(r, files, main, stop_before, gen_header, enum_traits):
    ir, debug, errors = glue.parse_emboss_file(main, reader_for(files, r.read), stop_before_step=stop_before)
    r.ir, r.debug, r.errors = ir, debug, errors
    if (ir is None) != bool(errors):
        r.front_mismatch = "front end returned ir is None: %s with errors: %r" % (ir is None, errors)
    if errors or ir is None or not gen_header or stop_before:
        return
    r.stage = "back"
    cfg = header_generator.Config(include_enum_traits=enum_traits)
    header, errors = header_generator.generate_header(ir, cfg)
    r.header = header
    if errors:
        r.errors = errors
        r.header = None
        r.ir = None
        r.stage = "back-errors"
    elif not isinstance(header, str) or not header:
        r.front_mismatch = "back end returned neither header nor errors"


def check_error_shape(r, files):
    """Returns a list of (kind, text) problems with r.errors per C16's statement."""
    problems = []
    if not isinstance(r.errors, list):
        return [("errors-not-list", repr(type(r.errors)))]
    for group in r.errors:
        if not group:
            problems.append(("empty-error-group", ""))
            continue
        for m in group:
            src = m.source_file
            loc = m.location
            if loc.is_synthetic:
                # positions of expressions the compiler made up are meaningless; the one piece of user
                # text the compiler rewrites in place is `$next`, which must keep a usable position
                kind = "synthetic-location"
                if src in files and loc.start.line >= 1:
                    ls = files[src].splitlines()
                    if loc.start.line <= len(ls) and loc.end.line == loc.start.line:
                        if ls[loc.start.line - 1][loc.start.column - 1 : loc.end.column - 1] == "$next":
                            kind = "synthetic-flag-on-user-text"  # the user's `$next`, rewritten by the compiler
                problems.append((kind, m.message))
                continue
            if src == "":
                continue  # the prelude
            if src not in files:
                # "Unable to read file" is reported against the missing file itself
                if "Unable to read file" in group[0].message or src in r.read:
                    continue
                problems.append(("unknown-file", "%r: %s" % (src, m.message)))
                continue
            lines = files[src].splitlines()
            n = len(lines)
            ln, col = loc.start.line, loc.start.column
            if ln < 1 or col < 1:
                problems.append(("position-before-file", "%s at %s: %s" % (src, loc, m.message)))
            elif ln > n + 1 or (ln == n + 1 and col != 1 and n > 0) :
                problems.append(("position-after-file", "%s at %s (file has %d lines): %s" % (src, loc, n, m.message)))
            elif ln <= n and col > len(lines[ln - 1]) + 1:
                problems.append(("column-after-line", "%s at %s (line has %d chars): %s" % (src, loc, len(lines[ln - 1]), m.message)))
            elif ln <= n and lines[ln - 1]:
                # "renders with its source line": the rendering quotes the line the position names, and
                # puts its marker under the column the position names
                try:
                    parts = [t for _, t in m.format(dict(files))]
                except Exception:
                    continue  # reported by the callers that render whole error lists
                want = lines[ln - 1] + "\n"
                if want not in parts:
                    quoted = parts[-2] if len(parts) >= 2 else None
                    problems.append(("rendered-source-line-wrong", "%s at %s: message %r is rendered with %r, line %d of the file is %r" % (src, loc, m.message.split("\n")[0], quoted, ln, lines[ln - 1])))
                elif not parts[-1].startswith(" " * (col - 1) + "^") or parts[-1].strip(" ^"):
                    problems.append(("rendered-marker-wrong", "%s at %s: marker line %r" % (src, loc, parts[-1])))
    return problems


def format_errors(r, files, color=False):
    return emb_error.format_errors(r.errors, dict(files), color)


def corpus(repo=None):
    """name -> text of the repository's .emb files (import paths as used there)."""
    repo = repo or REPO
    out = {}
    for sub in ("testdata", "testdata/format", "testdata/golden", "testdata/import_dir/project", "compiler/front_end"):
        d = os.path.join(repo, sub)
        if not os.path.isdir(d):
            continue
        for fn in sorted(os.listdir(d)):
            if fn.endswith(".emb"):
                with open(os.path.join(d, fn)) as f:
                    out[os.path.join(sub, fn)] = f.read()
    return out


_snippets = None


def test_snippets(repo=None):
    """Emboss source snippets embedded in the repository's own unit tests
    (string literals passed to calls), as an additional seed corpus: they reach
    most diagnostics of every pass.  Returns a sorted list of distinct texts."""
    global _snippets
    if _snippets is not None:
        return _snippets
    import ast

    repo = repo or REPO
    out = set()
    for sub in ("compiler/front_end", "compiler/back_end/cpp", "compiler/util"):
        d = os.path.join(repo, sub)
        for fn in sorted(os.listdir(d)):
            if not fn.endswith("_test.py"):
                continue
            try:
                with open(os.path.join(d, fn)) as f:
                    tree = ast.parse(f.read())
            except SyntaxError:
                continue
            for node in ast.walk(tree):
                if isinstance(node, ast.Constant) and isinstance(node.value, str):
                    s = node.value
                    if "\n" in s and len(s) < 4000 and any(k in s for k in ("struct ", "enum ", "bits ", "external ", "import ")) and ":" in s:
                        out.add(s)
    _snippets = sorted(out)
    return _snippets
