"""vlib: runner plumbing shared by every property check.

A check module (props/cNN_*.py) exposes

    PROPERTY = "C16"
    def run(ctx): ...            # explore; call ctx.case(...) / ctx.fail(...)
    def replay(ctx, data): ...   # re-execute one saved failing case, no Hypothesis

Exit codes: 0 held, 1 violation (with VIOLATION line), 2 harness error.
"""

import collections
import hashlib
import json
import os
import re
import shutil
import sys
import tempfile
import time
import traceback

VERIF = os.path.dirname(os.path.dirname(os.path.abspath(__file__)))
REPO = os.environ.get("EMBOSS_REPO", "/repo")


def h(obj):
    """Stable short hash of a JSON-able object."""
    s = json.dumps(obj, sort_keys=True, default=repr, ensure_ascii=True)
    return hashlib.sha1(s.encode("utf-8", "surrogatepass")).hexdigest()[:16]


class Stats(object):
    """Mergeable per-shard statistics (picklable)."""

    def __init__(self):
        self.evaluations = 0
        self.nontrivial = set()
        self.classes = collections.Counter()
        self.samples = []
        self.failures = []  # list of dict(sig=..., case=..., detail=...)
        self.discards = 0
        self.extra = {}

    def case(self, key, nontrivial, classes=(), sample=None, max_samples=6):
        """Record one evaluated case.

        key: hashable/JSON-able identity of the case (used for distinctness).
        nontrivial: bool by the property's stated rule.
        """
        self.evaluations += 1
        if nontrivial:
            self.nontrivial.add(h(key))
        for c in classes:
            self.classes[c] += 1
        if sample is not None and nontrivial and len(self.samples) < max_samples:
            self.samples.append(sample)

    def fail(self, sig, case, detail):
        """Record a failing case.  sig: dict of short strings (root-cause key)."""
        self.failures.append({"sig": sig, "case": case, "detail": detail})

    def merge(self, other):
        self.evaluations += other.evaluations
        self.nontrivial |= other.nontrivial
        self.classes.update(other.classes)
        for s in other.samples:
            if len(self.samples) < 8:
                self.samples.append(s)
        self.failures.extend(other.failures)
        self.discards += other.discards
        for k, v in other.extra.items():
            if k.startswith("_") and isinstance(v, list):
                self.extra[k] = self.extra.get(k, []) + v  # per-shard payloads are concatenated
            elif isinstance(v, (int, float)) and isinstance(self.extra.get(k, 0), (int, float)):
                self.extra[k] = self.extra.get(k, 0) + v
            else:
                self.extra.setdefault(k, v)
        return self


def load_known_findings():
    path = os.path.join(VERIF, "known_findings.json")
    if not os.path.exists(path):
        return []
    with open(path) as f:
        return json.load(f)["findings"]


def sig_matches(matcher, sig):
    """matcher: dict key -> regex; every key must be present in sig and match."""
    for k, rx in matcher.items():
        v = sig.get(k)
        if v is None:
            return False
        if not re.search(rx, str(v), re.S):
            return False
    return True


class Ctx(object):
    def __init__(self, prop_id, tier, seed):
        self.prop_id = prop_id
        self.tier = tier
        self.seed = seed
        self.repo = REPO
        self.stats = Stats()
        self.t0 = time.time()
        self.assumptions = []
        self.rule = ""
        self.level = "exploration"
        self.coverage_extra = {}
        self._tmp = None
        self.known = [f for f in load_known_findings() if f["property"] == prop_id]
        self.quick = tier == "quick"

    # -- scratch space, removed at exit ------------------------------------
    @property
    def tmp(self):
        if self._tmp is None:
            base = os.environ.get("VERIF_TMP") or tempfile.gettempdir()
            self._tmp = tempfile.mkdtemp(prefix="verif_%s_" % self.prop_id, dir=base)
        return self._tmp

    def cleanup(self):
        if self._tmp and os.path.isdir(self._tmp):
            shutil.rmtree(self._tmp, ignore_errors=True)
        self._tmp = None

    def pick(self, quick, thorough):
        return quick if self.quick else thorough

    def elapsed(self):
        return time.time() - self.t0

    # -- finishing ---------------------------------------------------------
    def bucket_failures(self):
        """Group failures by signature; split known vs new."""
        buckets = collections.OrderedDict()
        for f in self.stats.failures:
            key = h(f["sig"])
            b = buckets.setdefault(key, {"sig": f["sig"], "cases": []})
            b["cases"].append(f)
        new, known = [], collections.OrderedDict()
        for key, b in buckets.items():
            hit = None
            for kf in self.known:
                if kf.get("status") == "known" and sig_matches(kf["matcher"], b["sig"]):
                    hit = kf
                    break
            if hit is not None:
                k = known.setdefault(hit["id"], {"finding": hit, "count": 0})
                k["count"] += len(b["cases"])
            else:
                new.append(b)
        return new, known

    def write_replay(self, bucket, minimiser=None):
        cases = bucket["cases"]

        def size(c):
            return len(json.dumps(c["case"], default=repr))

        best = min(cases, key=size)
        case, detail = best["case"], best["detail"]
        if minimiser is not None:
            try:
                case2, detail2 = minimiser(bucket["sig"], case, detail)
                if case2 is not None:
                    case, detail = case2, detail2
            except Exception:  # minimiser trouble must never hide the finding
                traceback.print_exc()
        d = os.path.join(os.environ.get("VERIF_REPLAY_DIR") or os.path.join(VERIF, "replays"), self.prop_id)
        os.makedirs(d, exist_ok=True)
        path = os.path.join(d, "%s.json" % h([bucket["sig"], case]))
        with open(path, "w") as f:
            json.dump(
                {
                    "property": self.prop_id,
                    "sig": bucket["sig"],
                    "case": case,
                    "detail": detail,
                    "seed": self.seed,
                    "tier": self.tier,
                    "occurrences": len(cases),
                },
                f,
                indent=1,
                default=repr,
            )
        return path

    def finish(self, minimiser=None):
        new, known = self.bucket_failures()
        # every listed known finding is reported when its matcher hit
        for fid, k in known.items():
            print(
                "KNOWN-FINDING: property=%s %s (id=%s, %d case(s) this run)"
                % (self.prop_id, k["finding"]["what"], fid, k["count"])
            )
        paths = []
        for b in new:
            p = self.write_replay(b, minimiser)
            paths.append(p)
            print("--- violation bucket sig=%s" % json.dumps(b["sig"], default=repr))
            det = b["cases"][0]["detail"]
            print(str(det)[:2000])
        self.write_evidence(len(new), known)
        for p in paths:
            print("VIOLATION property=%s replay=%s" % (self.prop_id, p))
        self.cleanup()
        return 1 if new else 0

    def write_evidence(self, nviol, known=None):
        st = self.stats
        cov = {
            "evaluations": int(st.evaluations),
            "distinct_nontrivial": len(st.nontrivial),
            "rule": self.rule,
            "samples": st.samples[:8] if st.samples else ["<no non-trivial sample recorded>"],
            "classes": dict(st.classes.most_common()),
            "discards": st.discards,
        }
        cov.update(st.extra)
        cov.update(self.coverage_extra)
        if known:
            cov["known_findings_hit"] = {fid: k["count"] for fid, k in known.items()}
        ev = {
            "property_id": self.prop_id,
            "tier": self.tier,
            "seed": int(self.seed),
            "level": self.level,
            "coverage": cov,
            "assumptions": self.assumptions,
            "wall_s": round(time.time() - self.t0, 2),
            "violations": int(nviol),
        }
        d = os.environ.get("VERIF_EVIDENCE_DIR") or os.path.join(VERIF, "evidence")
        os.makedirs(d, exist_ok=True)
        with open(os.path.join(d, "%s.json" % self.prop_id), "w") as f:
            json.dump(ev, f, indent=1, default=repr)
        print(
            "evidence: property=%s tier=%s seed=%d evaluations=%d distinct_nontrivial=%d "
            "discards=%d violations=%d wall=%.1fs"
            % (
                self.prop_id,
                self.tier,
                self.seed,
                st.evaluations,
                len(st.nontrivial),
                st.discards,
                nviol,
                time.time() - self.t0,
            )
        )
        print("classes: %s" % dict(st.classes.most_common(24)))


# ---------------------------------------------------------------------------
# parallel sharding (fork-based so imported repo modules are shared)
# ---------------------------------------------------------------------------

def _shard_entry(args):
    fn, shard, kwargs = args
    import random

    random.seed(0)
    try:
        return ("ok", fn(shard, **kwargs))
    except BaseException:
        return ("err", traceback.format_exc())


def run_shards(fn, nshards, procs=None, **kwargs):
    """Runs fn(shard_index, **kwargs) -> Stats in forked workers; merges."""
    import multiprocessing as mp

    procs = procs or min(nshards, int(os.environ.get("VERIF_PROCS", "16")))
    total = Stats()
    if procs <= 1 or nshards <= 1:
        for i in range(nshards):
            total.merge(fn(i, **kwargs))
        return total
    ctx = mp.get_context("fork")
    with ctx.Pool(procs, maxtasksperchild=1) as pool:
        results = pool.map(_shard_entry, [(fn, i, kwargs) for i in range(nshards)], chunksize=1)
    for status, r in results:
        if status == "err":
            raise HarnessError("shard failed:\n" + r)
        total.merge(r)
    return total


class HarnessError(Exception):
    pass


# ---------------------------------------------------------------------------
# Hypothesis helper
# ---------------------------------------------------------------------------

def hyp_run(strategy, body, max_examples, seed, shrink=False):
    """Runs body(x) for max_examples draws of strategy under a fixed seed.

    body is expected to *record* failures rather than raise; an exception
    escaping body is a harness error unless it is an AssertionError raised on
    purpose with shrink=True.
    """
    import hypothesis
    from hypothesis import HealthCheck, Phase, given, settings

    phases = [Phase.generate] + ([Phase.shrink] if shrink else [])

    @hypothesis.seed(seed)
    @settings(
        max_examples=max_examples,
        deadline=None,
        database=None,
        derandomize=False,
        report_multiple_bugs=False,
        phases=phases,
        suppress_health_check=list(HealthCheck),
    )
    @given(strategy)
    def t(x):
        body(x)

    t()


# ---------------------------------------------------------------------------
# generic ddmin over a list
# ---------------------------------------------------------------------------

def ddmin(items, still_fails, max_tests=400):
    """Classic delta debugging: returns a 1-minimal-ish sublist for which
    still_fails(sublist) is true.  still_fails(items) is assumed true."""
    tests = [0]

    def test(x):
        tests[0] += 1
        return still_fails(x)

    n = 2
    items = list(items)
    while len(items) >= 2 and tests[0] < max_tests:
        chunk = max(1, len(items) // n)
        subsets = [items[i : i + chunk] for i in range(0, len(items), chunk)]
        reduced = False
        for i in range(len(subsets)):
            comp = [x for j, s in enumerate(subsets) if j != i for x in s]
            if comp and test(comp):
                items = comp
                n = max(n - 1, 2)
                reduced = True
                break
            if tests[0] >= max_tests:
                break
        if not reduced:
            if n >= len(items):
                break
            n = min(len(items), n * 2)
    return items


# ---------------------------------------------------------------------------
# entry point
# ---------------------------------------------------------------------------

def main(argv):
    import argparse
    import importlib

    ap = argparse.ArgumentParser()
    ap.add_argument("prop")
    ap.add_argument("--tier", default=os.environ.get("VERIF_TIER", "quick"))
    ap.add_argument("--replay")
    ap.add_argument("--seed", type=int, default=None)
    a = ap.parse_args(argv[1:])
    seed = a.seed if a.seed is not None else int(os.environ.get("VERIF_SEED", "1") or "1")
    tier = a.tier if a.tier in ("quick", "thorough") else "quick"
    prop = a.prop.upper()
    mods = [m[:-3] for m in os.listdir(os.path.join(VERIF, "props")) if m.lower().startswith(prop.lower() + "_") and m.endswith(".py")]
    if not mods:
        print("no check module for %s" % prop)
        return 2
    ctx = Ctx(prop, tier, seed)
    try:
        mod = importlib.import_module("props." + mods[0])
        if a.replay:
            with open(a.replay) as f:
                data = json.load(f)
            ok = mod.replay(ctx, data)
            ctx.cleanup()
            if ok:
                print("replay: property held on the saved case")
                return 0
            print("VIOLATION property=%s replay=%s" % (prop, a.replay))
            return 1
        rc = mod.run(ctx)
        return rc
    except SystemExit:
        raise
    except BaseException:
        traceback.print_exc()
        print("HARNESS-ERROR property=%s (not a violation)" % prop)
        ctx.cleanup()
        return 2
