#!/bin/sh
# Offline setup: install hypothesis (+ atheris, optional) next to the framework.
# Nothing is fetched; the wheelhouse is on disk.
set -e
cd "$(dirname "$0")"
mkdir -p .deps evidence replays
if ! PYTHONPATH=.deps /venv/bin/python -c "import hypothesis" 2>/dev/null; then
  PIP_NO_INDEX=1 /venv/bin/pip install -q --no-index --find-links /opt/veriftools/wheels \
      --target .deps hypothesis 2>&1 | grep -v -i conda || true
fi
if ! PYTHONPATH=.deps /venv/bin/python -c "import atheris" 2>/dev/null; then
  PIP_NO_INDEX=1 /venv/bin/pip install -q --no-index --find-links /opt/veriftools/wheels \
      --target .deps atheris 2>&1 | grep -v -i conda || true
fi
PYTHONPATH=.deps /venv/bin/python -c "import hypothesis; print('hypothesis', hypothesis.__version__)"
PYTHONPATH=.deps /venv/bin/python -c "import atheris; print('atheris ok')" || echo "atheris unavailable (optional)"
g++ --version | head -1
clang++ --version | head -1
exit 0
