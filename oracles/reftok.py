"""Reference tokenizer built at run time from the pattern table published in
doc/grammar.md (longest match, ties to the earlier row), with its own line
splitting and indentation bookkeeping.  Shares no code with tokenizer.py."""

import os
import re

LINE_BREAK_CHARS = "\n\r\v\f\x1c\x1d\x1e\x85  "


def split_lines(text):
    """Lines as Python's documented str.splitlines boundaries (\\r\\n is one)."""
    lines = []
    cur = []
    i = 0
    n = len(text)
    while i < n:
        c = text[i]
        if c in LINE_BREAK_CHARS:
            lines.append("".join(cur))
            cur = []
            if c == "\r" and i + 1 < n and text[i + 1] == "\n":
                i += 1
        else:
            cur.append(c)
        i += 1
    if cur:
        lines.append("".join(cur))
    return lines


def load_pattern_table(repo):
    """Returns [(compiled regex, symbol or None)] in document order."""
    path = os.path.join(repo, "doc", "grammar.md")
    with open(path, encoding="utf-8") as f:
        md = f.read()
    start = md.index("The following regexes are used to tokenize input")
    rows = []
    in_table = False
    for line in md[start:].splitlines():
        if line.startswith("Pattern") and "| Symbol" in line:
            in_table = True
            continue
        if in_table:
            if set(line.strip()) <= set("-| ") and line.strip():
                continue
            if not line.startswith("`"):
                if rows:
                    break
                continue
            # split on the unescaped " | " column separator: the pattern cell is
            # `...` and markdown-escapes | as \|
            m = re.match(r"^`(.*)`\s*\|\s*(.*?)\s*$", line)
            if not m:
                raise ValueError("cannot parse grammar.md row: %r" % line)
            pat, sym = m.group(1), m.group(2)
            pat = pat.replace("\\|", "|")
            if sym.startswith("`") and sym.endswith("`"):
                sym = sym[1:-1]
            elif "no symbol" in sym:
                sym = None
            else:
                raise ValueError("cannot parse symbol cell: %r" % line)
            if sym is not None and len(sym) >= 3 and sym.startswith('"') and sym.endswith('"'):
                # literal row: the symbol *is* the literal text in quotes; the
                # pattern cell is that text with every non-word character
                # backslash-escaped (for "|" the backslash doubles as the
                # markdown table escape, so it is not un-escaped above).
                lit = sym[1:-1]
                cell = re.sub(r"\\(\W)", r"\1", m.group(1))
                if cell != lit:
                    raise ValueError("literal row %r does not spell its symbol %r" % (m.group(1), sym))
                rows.append((re.compile(re.escape(lit)), sym))
                continue
            rows.append((re.compile(pat), sym))
    if len(rows) < 40:
        raise ValueError("pattern table in doc/grammar.md not found or too short (%d rows)" % len(rows))
    return rows


def load_reserved_words(repo):
    path = os.path.join(repo, "doc", "grammar.md")
    with open(path, encoding="utf-8") as f:
        md = f.read()
    i = md.index("keywords are reserved, but not used, by Emboss")
    tail = md[i:]
    tail = tail[tail.index("\n\n") :]
    return re.findall(r"`([^`]+)`", tail)


class RefTokenizer(object):
    def __init__(self, repo):
        self.table = load_pattern_table(repo)

    def tokenize_line(self, line):
        """[(symbol, text, start_col0, end_col0)] or ('error', col0)."""
        out = []
        off = 0
        n = len(line)
        while off < n:
            best = None
            rest = line[off:]
            for rx, sym in self.table:
                m = rx.match(rest)
                if m and len(m.group(0)) > (len(best[0]) if best else 0):
                    best = (m.group(0), sym)
            if best is None:
                return ("error", off)
            if best[1] is not None:
                out.append((best[1], best[0], off, off + len(best[0])))
            off += len(best[0])
        return out

    def tokenize(self, text):
        """Returns ('ok', [(symbol, text, line, col, end_line, end_col)]) or
        ('error', kind, line, col)."""
        toks = []
        stack = [""]
        lines = split_lines(text)
        ln = 0
        for line in lines:
            ln += 1
            lt = self.tokenize_line(line)
            if isinstance(lt, tuple):
                return ("error", "unrecognized", ln, lt[1] + 1)
            real = [t for t in lt if t[0] != "Comment"]
            if real:
                k = 0
                while k < len(line) and line[k].isspace():
                    k += 1
                ws = line[:k]
                if ws == stack[-1]:
                    pass
                elif ws.startswith(stack[-1]):
                    toks.append(("Indent", ws[len(stack[-1]) :], ln, len(stack[-1]) + 1, ln, len(ws) + 1))
                    stack.append(ws)
                else:
                    if ws not in stack:
                        return ("error", "indentation", ln, 1)
                    while stack[-1] != ws:
                        stack.pop()
                        toks.append(("Dedent", "", ln, len(ws) + 1, ln, len(ws) + 1))
            for sym, t, a, b in lt:
                toks.append((sym, t, ln, a + 1, ln, b + 1))
            toks.append(('"\\n"', "\n", ln, len(line) + 1, ln, len(line) + 1))
        for _ in range(len(stack) - 1):
            toks.append(("Dedent", "", ln + 1, 1, ln + 1, 1))
        return ("ok", toks)


# --- classification straight from the language reference's prose -------------

_SNAKE = re.compile(r"[a-z][a-z_0-9]*\Z")
_CAMEL = re.compile(r"[A-Z][a-zA-Z0-9]*[a-z][a-zA-Z0-9]*\Z")
_SHOUTY = re.compile(r"[A-Z][A-Z_0-9]*[A-Z_][A-Z_0-9]*\Z")
_DEC = re.compile(r"(?:[0-9]+|[0-9]{1,3}(?:_[0-9]{3})+)\Z")
_HEX = re.compile(r"0x(?:[0-9a-fA-F]+|[0-9a-fA-F]{1,4}(?:_[0-9a-fA-F]{4})+|[0-9a-fA-F]{1,8}(?:_[0-9a-fA-F]{8})+)\Z")
_BIN = re.compile(r"0b(?:[01]+|[01]{1,4}(?:_[01]{4})+|[01]{1,8}(?:_[01]{8})+)\Z")
KEYWORDS = {"struct", "bits", "enum", "external", "import", "as", "if", "let", "true", "false"}


def prose_class(word):
    """Expected symbol of a maximal [A-Za-z0-9_$]+ run by the language
    reference's Names / Numeric Constant Formats sections; None = the prose
    does not decide (keywords, $-words, the `0x_`/`0b_` spelling, reserved
    emboss prefixes)."""
    if word in KEYWORDS or "$" in word:
        return None
    low = word.lower()
    if low.startswith("emboss_reserved") or low.startswith("embossreserved"):
        return None
    if re.match(r"0[xb]_", word):
        return None
    if _DEC.match(word) or _HEX.match(word) or _BIN.match(word):
        return "Number"
    if word[0].isdigit():
        return "not-a-number"
    if _SNAKE.match(word):
        return "SnakeWord"
    if _CAMEL.match(word):
        return "CamelWord"
    if _SHOUTY.match(word):
        return "ShoutyWord"
    return "not-a-name"
