"""Independent CFG machinery for C08: Earley recognizer (with nullable
handling), viable-prefix computation, derivation (parse-tree) checker, grammar
analyses (productive / reachable / nullable) and a bounded ambiguity search.

A grammar is (start, productions) with productions = list of (lhs, rhs tuple).
Terminals are the symbols that never occur as a lhs.
"""

import collections


class CFG(object):
    def __init__(self, start, productions):
        self.start = start
        self.productions = []
        for l, r in productions:  # a production listed twice is one production
            if (l, tuple(r)) not in self.productions:
                self.productions.append((l, tuple(r)))
        self.by_lhs = collections.OrderedDict()
        for l, r in self.productions:
            self.by_lhs.setdefault(l, []).append(r)
        self.nonterminals = set(self.by_lhs)
        if start not in self.nonterminals:
            self.nonterminals.add(start)
            self.by_lhs.setdefault(start, [])
        self.terminals = set(s for _, r in self.productions for s in r) - self.nonterminals
        self.nullable = self._nullable()
        self.productive = self._productive()
        self.reachable = self._reachable()

    def _nullable(self):
        n = set()
        changed = True
        while changed:
            changed = False
            for l, r in self.productions:
                if l not in n and all(s in n for s in r):
                    n.add(l)
                    changed = True
        return n

    def _productive(self):
        p = set()
        changed = True
        while changed:
            changed = False
            for l, r in self.productions:
                if l not in p and all(s in p or s not in self.nonterminals for s in r):
                    p.add(l)
                    changed = True
        return p

    def _reachable(self):
        seen = {self.start}
        work = [self.start]
        while work:
            a = work.pop()
            for r in self.by_lhs.get(a, []):
                for s in r:
                    if s in self.nonterminals and s not in seen:
                        seen.add(s)
                        work.append(s)
        return seen

    def is_reduced(self):
        """Every nonterminal reachable from the start symbol is productive."""
        return all(a in self.productive for a in self.reachable)

    def pruned(self):
        """The grammar without productions that mention unproductive symbols."""
        prods = [(l, r) for l, r in self.productions if l in self.productive and all(s in self.productive or s not in self.nonterminals for s in r)]
        return CFG(self.start, prods)

    def min_yield(self):
        """Minimal terminal-string length derivable from each nonterminal."""
        INF = 10**6
        m = {a: INF for a in self.nonterminals}
        changed = True
        while changed:
            changed = False
            for l, r in self.productions:
                v = sum(m[s] if s in self.nonterminals else 1 for s in r)
                if v < m[l]:
                    m[l] = v
                    changed = True
        return m


def earley_sets(g, tokens):
    """Returns list of Earley sets S_0..S_k (k <= n); stops at the first empty
    set.  Items are (lhs, rhs, dot, origin)."""
    n = len(tokens)
    sets = [collections.OrderedDict()]

    def add(i, item):
        if item not in sets[i]:
            sets[i][item] = True
            return True
        return False

    for r in g.by_lhs.get(g.start, []):
        add(0, (g.start, r, 0, 0))
    for i in range(n + 1):
        if i >= len(sets):
            break
        items = list(sets[i])
        k = 0
        while k < len(items):
            lhs, rhs, dot, origin = items[k]
            k += 1
            if dot < len(rhs):
                s = rhs[dot]
                if s in g.nonterminals:
                    for r in g.by_lhs.get(s, []):
                        it = (s, r, 0, i)
                        if add(i, it):
                            items.append(it)
                    if s in g.nullable:
                        it = (lhs, rhs, dot + 1, origin)
                        if add(i, it):
                            items.append(it)
            else:
                for plhs, prhs, pdot, porigin in list(sets[origin]):
                    if pdot < len(prhs) and prhs[pdot] == lhs:
                        it = (plhs, prhs, pdot + 1, porigin)
                        if add(i, it):
                            items.append(it)
        if i < n:
            nxt = collections.OrderedDict()
            for lhs, rhs, dot, origin in items:
                if dot < len(rhs) and rhs[dot] == tokens[i] and rhs[dot] not in g.nonterminals:
                    nxt[(lhs, rhs, dot + 1, origin)] = True
            if not nxt:
                break
            sets.append(nxt)
    return sets


def recognize(g, tokens):
    """(accepted, error_index).  error_index is the index of the first token
    (len(tokens) = the end-of-input marker) at which the prefix read so far can
    no longer be extended to a sentence of the *given* grammar g; callers pass a
    pruned grammar so that non-empty Earley sets mean 'viable prefix'."""
    sets = earley_sets(g, tokens)
    n = len(tokens)
    if len(sets) == n + 1:
        for lhs, rhs, dot, origin in sets[n]:
            if lhs == g.start and dot == len(rhs) and origin == 0:
                return True, None
        return False, n
    return False, len(sets) - 1


def check_tree(g, tree, tokens, is_reduction, get_symbol, get_children, get_production):
    """Validates that `tree` is a derivation of `tokens` from g.start.

    Returns None if valid, else a string describing the first problem."""
    prods = set(g.productions)
    leaves = []

    def walk(node):
        if is_reduction(node):
            lhs, rhs = get_production(node)
            if (lhs, tuple(rhs)) not in prods:
                return "node uses %s -> %s which is not a production of the grammar" % (lhs, " ".join(rhs))
            if get_symbol(node) != lhs:
                return "node symbol %r differs from its production's lhs %r" % (get_symbol(node), lhs)
            ch = get_children(node)
            if len(ch) != len(rhs):
                return "node %s has %d children for a rhs of length %d" % (lhs, len(ch), len(rhs))
            for c, want in zip(ch, rhs):
                got = get_symbol(c)
                if got != want:
                    return "child symbol %r where production %s -> %s requires %r" % (got, lhs, " ".join(rhs), want)
                if want in g.nonterminals and not is_reduction(c):
                    return "terminal leaf where nonterminal %r is required" % want
                if want not in g.nonterminals and is_reduction(c):
                    return "interior node where terminal %r is required" % want
                e = walk(c)
                if e:
                    return e
            return None
        leaves.append(node)
        return None

    if not is_reduction(tree):
        return "root is not a reduction"
    if get_symbol(tree) != g.start:
        return "root symbol %r is not the start symbol %r" % (get_symbol(tree), g.start)
    e = walk(tree)
    if e:
        return e
    if len(leaves) != len(tokens) or any(a is not b for a, b in zip(leaves, tokens)):
        return "leaves of the tree (%s) are not the input tokens in order (%s)" % (" ".join(str(get_symbol(x)) for x in leaves), " ".join(str(get_symbol(x)) for x in tokens))
    return None


def find_ambiguity(g, max_len=5, max_forms=30000, max_steps=14):
    """Bounded search for a terminal string with two distinct leftmost
    derivations.  Returns the string (tuple) or None (none found within bounds —
    NOT a proof of unambiguity)."""
    g = g.pruned()
    if g.start not in g.productive:
        return None
    my = g.min_yield()
    # A sentential form in a leftmost derivation: (terminal prefix, rest).  Two
    # different derivation histories reaching the same sentence = ambiguity, so
    # forms carry their history's identity implicitly by being explored as a tree.
    seen_sentences = {}
    explored = 0
    # iterative deepening DFS over leftmost derivations
    stack = [((), (g.start,), 0)]
    while stack:
        prefix, rest, steps = stack.pop()
        explored += 1
        if explored > max_forms:
            return None
        # move leading terminals of rest into prefix
        i = 0
        while i < len(rest) and rest[i] not in g.nonterminals:
            i += 1
        prefix = prefix + rest[:i]
        rest = rest[i:]
        if len(prefix) + sum(my[s] if s in g.nonterminals else 1 for s in rest) > max_len:
            continue
        if not rest:
            c = seen_sentences.get(prefix, 0) + 1
            seen_sentences[prefix] = c
            if c >= 2:
                return prefix
            continue
        if steps >= max_steps:
            continue
        a = rest[0]
        for r in g.by_lhs.get(a, []):
            stack.append((prefix, r + rest[1:], steps + 1))
    return None


def all_strings(alphabet, max_len):
    out = [()]
    frontier = [()]
    for _ in range(max_len):
        frontier = [s + (a,) for s in frontier for a in alphabet]
        out.extend(frontier)
    return out
