"""C15 — dependency cycles are always rejected; field order respects dependencies."""

import random
import re

from hypothesis import strategies as st

import vlib
from vlib import emb
from embgen import depgraph as DG

PROPERTY = "C15"

RULE = (
    "cases = random digraphs over 2-9 nodes (acyclic, self-loops, long cycles, several SCCs, forward-reference diamonds) realised as fields of one struct "
    "(edges through start, size, array length, condition, virtual value, type argument), as enum values (within and across enums) and as files importing each "
    "other (incl. self-import). Oracle: independent Kosaraju SCC on the intended graph: a (Import) dependency cycle error iff a non-trivial SCC/self-loop exists, "
    "reported name sets == SCC set; accepted structs: fields_in_dependency_order is a permutation, every field after all it mentions, identity when the source "
    "order is already topological; 60 s limit per case. Non-trivial = >= 4 nodes and >= 3 edges; distinct by program text."
)

LIMIT = 60


def cycle_groups(errors, kind="Dependency cycle"):
    groups = []
    other = []
    for g in errors:
        first = g[0].message.split("\n")
        if first[0] == kind:
            names = [first[1]] + [m.message for m in g[1:]]
            groups.append(frozenset(names))
        else:
            other.append(g[0].message.split("\n")[0])
    return groups, other


def mentions_of(field):
    """Names of fields of the same structure that field's location, existence condition, value or
    type (arguments, array lengths) refer to, read from the IR by a generic walk."""
    from compiler.util import ir_data_utils

    out = set()
    own = list(field.name.canonical_name.object_path[:-1])
    module = field.name.canonical_name.module_file

    def walk(x):
        if isinstance(x, dict):
            fr = x.get("field_reference")
            if isinstance(fr, dict) and fr.get("path"):
                cn = fr["path"][0].get("canonical_name", {})
                path = cn.get("object_path", [])
                if cn.get("module_file", "") == module and path[:-1] == own and path:
                    out.add(path[-1])
            for v in x.values():
                walk(v)
        elif isinstance(x, list):
            for v in x:
                walk(v)

    for part in ("location", "existence_condition", "read_transform", "type"):
        sub = getattr(field, part, None)
        if sub is not None:
            walk(ir_data_utils.IrDataSerializer(sub).to_dict(exclude_none=True))
    return out


def check_struct(stats, rnd, g):
    text, names, kinds, where = DG.struct_program(rnd, g)
    want = set(frozenset(names[v] for v in c) for c in DG.sccs(g))
    case = {"kind": "struct", "text": text, "graph": {str(k): sorted(v) for k, v in g.items()}}
    r = emb.compile_files({"m.emb": text}, limit_s=LIMIT, gen_header=False)
    edges = sum(len(v) for v in g.values())
    classes = ["struct", "cyclic" if want else "acyclic"] + sorted(set("edge-via:" + w for w in where.values()))
    stats.case(text, len(g) >= 4 and edges >= 3, classes, sample={"realisation": "struct", "text": text, "expected_cycles": [sorted(c) for c in want]})
    if r.exc:
        stats.fail(dict(kind="timeout" if r.timeout else "exception", **r.exc_sig), case, r.exc_text)
        return
    got, other = cycle_groups(r.errors)
    if "Foo." in text.split("struct Foo:")[1]:
        # some links of a cycle are type-qualified references (Foo.f3).  Such a reference must also name
        # a constant, and a member of a cycle never is one, so the module is rejected either way; which of
        # the two diagnostics comes first is not part of the property.  Compared: rejected, terminated
        # without an exception, and no cycle reported that is not one.
        stats.classes["cycle-with-type-qualified-links"] += 1
        if not r.errors:
            stats.fail({"kind": "cycle-missed", "realisation": "struct-qualified"}, case, "module with cycles %s accepted" % sorted(sorted(c) for c in want))
        elif not all(any(grp <= w_ for w_ in want) for grp in got):
            stats.fail({"kind": "spurious-cycle", "realisation": "struct-qualified"}, case, "expected cycles %s, reported %s" % (sorted(sorted(c) for c in want), sorted(sorted(c) for c in got)))
        elif set(got) != want:
            stats.classes["qualified-cycle-reported-as:" + other[0][:45] if other else "qualified-cycle-partly-reported"] += 1
        return
    if set(got) != want or len(got) != len(set(got)):
        if want and not got:
            k = "cycle-missed"
        elif got and not want:
            k = "spurious-cycle"
        else:
            k = "cycle-sets-differ"
        stats.fail({"kind": k, "realisation": "struct"}, case, "expected cycles %s, reported %s (other errors: %s)" % (sorted(sorted(c) for c in want), sorted(sorted(c) for c in got), other[:3]))
        return
    if want:
        return
    if r.errors:
        stats.discards += 1
        stats.classes["acyclic-rejected:" + other[0][:50]] += 1
        return
    # ordering clauses
    foo = [t for t in r.ir.module[0].type if t.name.name.text == "Foo"][0]
    fields = foo.structure.field
    order = list(foo.structure.fields_in_dependency_order)
    n_all = len(fields)
    if sorted(order) != list(range(n_all)):
        stats.fail({"kind": "order-not-a-permutation"}, case, "fields_in_dependency_order = %r for %d fields" % (order, n_all))
        return
    idx = {f.name.name.text: i for i, f in enumerate(fields)}
    position = {fi: p for p, fi in enumerate(order)}
    for v in g:
        for w in g[v]:
            if position[idx[names[w]]] > position[idx[names[v]]]:
                stats.fail({"kind": "order-violates-dependency", "via": where[v]}, case, "%s mentions %s but is ordered before it: order=%s" % (names[v], names[w], [fields[i].name.name.text for i in order]))
                return
    # the same clause over everything the IR itself mentions, generated fields ($size_in_bytes, ...)
    # included: whatever a field's location, condition, value or type arguments refer to comes first
    for i, f in enumerate(fields):
        for nm in sorted(mentions_of(f)):
            j = idx.get(nm)
            if j is not None and j != i and position[j] > position[i]:
                stats.fail({"kind": "order-violates-dependency", "via": "ir-reference" + ("-generated" if nm.startswith("$") else "")}, case, "%s mentions %s but is ordered before it: order=%s" % (f.name.name.text, nm, [fields[k].name.name.text for k in order]))
                return
    if "total" in kinds:
        stats.classes["reads-own-generated-field"] += 1
        return  # generated fields are appended to the field list, so the source order is not topological here
    src_topological = all(idx[names[w]] < idx[names[v]] for v in g for w in g[v])
    stats.classes["source-order-topological" if src_topological else "needs-reordering"] += 1
    if src_topological and order != list(range(n_all)):
        stats.fail({"kind": "order-not-stable"}, case, "source order is already topological but order=%s" % ([fields[i].name.name.text for i in order],))


def check_enum(stats, rnd, g):
    text, names, owner = DG.enum_program(rnd, g)
    want = set(frozenset(names[v] for v in c) for c in DG.sccs(g))
    case = {"kind": "enum", "text": text}
    r = emb.compile_files({"m.emb": text}, limit_s=LIMIT, gen_header=False)
    edges = sum(len(v) for v in g.values())
    stats.case(text, len(g) >= 4 and edges >= 3, ["enum", "cyclic" if want else "acyclic"], sample={"realisation": "enum", "text": text, "expected_cycles": [sorted(c) for c in want]})
    if r.exc:
        stats.fail(dict(kind="timeout" if r.timeout else "exception", **r.exc_sig), case, r.exc_text)
        return
    got, other = cycle_groups(r.errors)
    if set(got) != want:
        k = "cycle-missed" if want and not got else ("spurious-cycle" if got and not want else "cycle-sets-differ")
        stats.fail({"kind": k, "realisation": "enum"}, case, "expected cycles %s, reported %s (other: %s)" % (sorted(sorted(c) for c in want), sorted(sorted(c) for c in got), other[:3]))


def check_imports(stats, rnd, g):
    files, main = DG.import_program(rnd, g)
    reach = DG.reachable(g, 0)
    sub = {v: set(w for w in g[v]) for v in reach}
    want = set(frozenset("m%d.emb" % v for v in c) for c in DG.sccs(sub))
    case = {"kind": "imports", "files": files, "main": main}
    r = emb.compile_files(files, main, limit_s=LIMIT, gen_header=False)
    edges = sum(len(v) for v in sub.values())
    stats.case(files, len(sub) >= 4 and edges >= 3, ["imports", "cyclic" if want else "acyclic"], sample={"realisation": "imports", "main_text": files[main], "expected_cycles": [sorted(c) for c in want]})
    if r.exc:
        stats.fail(dict(kind="timeout" if r.timeout else "exception", **r.exc_sig), case, r.exc_text)
        return
    got, other = cycle_groups(r.errors, "Import dependency cycle")
    if set(got) != want:
        k = "cycle-missed" if want and not got else ("spurious-cycle" if got and not want else "cycle-sets-differ")
        stats.fail({"kind": k, "realisation": "imports"}, case, "expected import cycles %s, reported %s (other: %s)" % (sorted(sorted(c) for c in want), sorted(sorted(c) for c in got), other[:3]))
    elif not want and r.errors:
        stats.fail({"kind": "acyclic-imports-rejected"}, case, other[0])


# cycles whose links are of different kinds: plain field references, type-qualified references to
# virtual fields, enum values; (text, names that must be reported as one cycle)
MIXED_CYCLES = [
    ("struct Foo:\n  0 [+1]  UInt  a\n  let x = Foo.y\n  let y = x\n", {"x", "y"}),
    ("struct Foo:\n  let x = Foo.y + 1\n  let y = Foo.z\n  let z = x\n", {"x", "y", "z"}),
    ("enum Kind:\n  SMALL = Foo.limit\n  BIG = 9\nstruct Foo:\n  let limit = scaled\n  let scaled = Kind.SMALL + 0\n", {"SMALL", "limit", "scaled"}),
    ("struct Foo:\n  let p = Bar.r\n  let pp = p\nstruct Bar:\n  let r = rr\n  let rr = Foo.pp\n", {"p", "pp", "r", "rr"}),
    ("enum Ee:\n  AA = Ff.XX\nenum Ff:\n  XX = Foo.k\nstruct Foo:\n  let k = kk\n  let kk = Ee.AA + 1\n", {"AA", "XX", "k", "kk"}),
]


def check_mixed(stats):
    for text, want in MIXED_CYCLES:
        case = {"kind": "mixed-literal", "text": text}
        r = emb.compile_files({"m.emb": text}, limit_s=LIMIT, gen_header=False)
        stats.case(text, True, ["mixed-kind-cycle", "cyclic"], sample=None)
        if r.exc:
            stats.fail(dict(kind="timeout" if r.timeout else "exception", **r.exc_sig), case, r.exc_text)
            continue
        got, other = cycle_groups(r.errors)
        reported = set()
        for grp in got:
            # cycle members are listed by their full names; keep the last component
            reported |= set(re.split(r"[.\s]", x.strip())[-1] for x in grp)
        if not got:
            stats.fail({"kind": "cycle-missed", "realisation": "mixed-literal"}, case, "a cycle through %s is not reported (other errors: %s)" % (sorted(want), other[:3]))
        elif not want <= reported:
            stats.fail({"kind": "cycle-sets-differ", "realisation": "mixed-literal"}, case, "cycle through %s reported as %s" % (sorted(want), sorted(sorted(g_) for g_ in got)))


def shard(idx, seed, n):
    stats = vlib.Stats()
    if idx == 0:
        check_mixed(stats)

    def body(case_seed):
        rnd = random.Random(case_seed)
        g = DG.random_graph(rnd)
        k = rnd.random()
        if k < 0.6:
            check_struct(stats, rnd, g)
        elif k < 0.8:
            check_enum(stats, rnd, g)
        else:
            check_imports(stats, rnd, g)

    vlib.hyp_run(st.integers(0, 2**63), body, n, seed=seed * 1061 + idx)
    return stats


def run(ctx):
    ctx.rule = RULE
    ctx.assumptions = [
        "for enum-value graphs only the cyclic/acyclic verdict is compared (an acyclic graph may still be rejected for typing)",
        "import graphs are restricted to files reachable from the main file (only those are read)",
        "termination judged by a 60 s limit per case (normal cost ~0.03 s)",
    ]
    ctx.stats = vlib.run_shards(shard, 16, seed=ctx.seed, n=ctx.pick(60, 1500))
    return ctx.finish(None)


def replay(ctx, data):
    c = data["case"]
    files = c.get("files") or {"m.emb": c["text"]}
    r = emb.compile_files(files, c.get("main", "m.emb"), limit_s=LIMIT, gen_header=False)
    print("replay outcome:", r.exc_sig or [g[0].message for g in r.errors][:4] or "accepted")
    return True
