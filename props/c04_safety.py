"""C04 — checked view operations never leave the buffer or hit undefined behaviour."""

import os
import random
import re
import shutil

import vlib
from vlib import emb
from embgen import model as M, semgen
from cppfarm import driver as D, farm
from props import c01_views as C1, c03_writes as C3, c20_copy_equals as C20

PROPERTY = "C04"

RULE = (
    "cases = (module, exact-size heap buffer, script of checked calls): layout-generator modules (observation of every field through Ok/IsComplete/SizeIsKnown/"
    "has_x/x().Ok()/Read-after-Ok on every prefix length of garbage buffers, plain and MakeAligned views; WriteToString with partial output under 4 option sets "
    "on Ok and non-Ok views and UpdateFromText of the result; UpdateFromText with token-soup texts built from the struct's field names), write-generator modules "
    "(CouldWriteValue/TryToWrite sequences with boundary values, incl. truncated buffers) and copy/equals scripts (TryToCopyFrom between views of different "
    "lengths and overlapping windows, Equals once both Ok), all built with clang++ -O1 -fsanitize=address,undefined -fno-sanitize-recover=all and runtime checks "
    "enabled; plus a coverage-guided tier: one libFuzzer target per module (testdata and generated) whose input selects structure, parameters and buffer and which calls every checked member (reads after Ok, writes of read values, text output/input, copies, equality, aligned views). Oracle: no sanitizer report, no EMBOSS_CHECK/assert abort, no signal. Non-trivial = script on a view with Ok()==false with >= 3 further checked "
    "calls, or a successful write followed by re-observation; distinct by (module, command)."
)

WORDS = ["{", "}", ":", ",", "[", "]", "0", "1", "255", "-1", "0x10", "0b1", "true", "false", "99999999999999999999", "AA", "BB", "zz", "{ }", "[0]:", "[9999]:", "#c\n", "\n", "1_000", "0x", "-"]
# literals one or two past the limits of every C++ integer type the text reader decodes into
LIMITS = [str(v + d) for b in (7, 8, 15, 16, 31, 32, 63, 64) for v in (2**b, -(2**b)) for d in (-2, -1, 0, 1, 2, 8, 9)] + ["0x%x" % (2**b + d) for b in (8, 16, 32, 64) for d in (-1, 0, 1)] + ["0b" + "1" * n for n in (8, 9, 32, 33, 64, 65)]


def soup(rnd, names):
    toks = ["{"]
    for _ in range(rnd.randrange(1, 10)):
        k = rnd.random()
        if k < 0.25 and names:
            toks += [rnd.choice(names), ":", rnd.choice(LIMITS)]
        elif k < 0.5 and names:
            toks += [rnd.choice(names), ":", rnd.choice(WORDS)]
        elif k < 0.7 and names:
            toks += [rnd.choice(names), ":", "{", rnd.choice(WORDS), ",", rnd.choice(WORDS), "}"]
        else:
            toks.append(rnd.choice(WORDS))
        if rnd.random() < 0.3:
            toks.append(",")
    if rnd.random() < 0.8:
        toks.append("}")
    return " ".join(toks)


def layout_case(seed, nbase, nprefix):
    rnd = random.Random(seed if not isinstance(seed, tuple) else seed[1] * 31 + seed[2])
    if isinstance(seed, tuple):  # ("stride-family", k, run seed): see props/c01_views.py
        m, _plan = C1.stride_family_module(seed[1], seed[2])
    else:
        m, feats = semgen.layout_module(rnd)
    text = semgen.module_text(m)
    r = emb.compile_files({"m.emb": text})
    if not r.accepted:
        return None
    C1.set_cpp_names(m)
    gen = D.DriverGen({"": m})
    src = gen.source("m.emb.h")
    script = []
    meta = []
    for si, s in enumerate(gen.top_structs()):
        maxlen = C1.struct_maxlen(s)
        names = [g.name for f in s.fields for g in ([f] if not f.is_anon else f.anon)]
        for _ in range(2 if s.params else 1):
            pv = " ".join(str(x) for x in C1.param_values(rnd, s))
            for base, lens in C1.gen_buffers(rnd, maxlen, nbase, nprefix):
                for n in lens:
                    b = base[:n].hex() or "-"
                    k = rnd.random()
                    if k < 0.4:
                        script.append("V %d %s %s" % (si, b, pv))
                    elif k < 0.55:
                        script.append("A %d %d %s %s" % (si, rnd.choice([2, 4, 8]), b, pv))
                    elif k < 0.8:
                        script.append("S %d %s %s" % (si, b, pv))
                    else:
                        script.append("U %d %s %s %s" % (si, b, soup(rnd, names).encode().hex(), pv))
                    meta.append((s.name, n < len(base)))
        # text input at the limits of the C++ type each integer field is decoded into
        ints = [g for f in s.fields for g in ([f] if not f.is_anon else f.anon) if g.typ is not None and not g.is_virtual and not g.typ.dims and g.typ.kind in ("UInt", "Int") and g.typ.bits]
        if ints:
            pv = " ".join(str(x) for x in C1.param_values(rnd, s))
            zero = (bytes(maxlen + 1)).hex()
            for g in rnd.sample(ints, min(len(ints), 3)):
                c = next(w for w in (8, 16, 32, 64) if g.typ.bits <= w)
                lim = 2 ** (c - 1) if g.typ.kind == "Int" else 2**c
                for v in rnd.sample([lim, lim + 1, lim + 8, lim - 1, -lim - 1, -lim - 2, -lim], 3):
                    script.append("U %d %s %s %s" % (si, zero, ("{ %s: %d }" % (g.name, v)).encode().hex(), pv))
                    meta.append((s.name, False))
    return {"text": text, "header": r.header, "driver": src, "script": "\n".join(script) + "\n", "meta": meta, "kind": "layout"}


def run_group(ctx, stats, cases, tag):
    root = os.path.join(ctx.tmp, tag)
    live = []
    for i, c in enumerate(cases):
        if c is None or c.get("rejected"):
            stats.discards += 1
            continue
        d = os.path.join(root, "m%d" % i)
        farm.write_files(d, {"m.emb.h": c["header"], "driver.cc": c["driver"], "m.emb": c["text"]})
        c["dir"] = d
        live.append(c)
    builds = farm.build_all([(c["dir"], "driver.cc", "driver", farm.CLANG_SAN, []) for c in live])
    runs = []
    for c, (d, ok, err) in zip(live, builds):
        if not ok:
            first = next((l for l in err.split("\n") if "error" in l), err[:200])
            stats.fail({"kind": "does-not-compile-with-clang", "msg": re.sub(r"[0-9]+", "N", first)[-100:]}, {"text": c["text"]}, err[-3000:])
        else:
            runs.append(c)
    results = farm.run_all([(c["dir"], "driver", c["script"]) for c in runs])
    for c, (rc, out, err) in zip(runs, results):
        lines = c["script"].strip().split("\n")
        done = out.count("\nEND") + (1 if out.startswith("END") else 0)
        for j, line in enumerate(lines[: max(done, 0) + 1]):
            cmd = line.split(" ", 1)[0]
            stats.case([c["text"], line], (cmd in ("S", "U", "W", "C", "O") or cmd.startswith("X")) or (c.get("meta") and j < len(c["meta"]) and c["meta"][j][1]), [c["kind"] + ":" + cmd], sample={"module_head": c["text"][:200], "command": line[:200]} if j % 97 == 0 else None)
        if rc != 0 or "runtime error" in err or "AddressSanitizer" in err:
            failing = lines[done] if done < len(lines) else "<after the last command>"
            what = "sanitizer"
            m1 = re.search(r"runtime error: ([^\n]*)", err)
            m2 = re.search(r"AddressSanitizer: ([a-z-]+)", err)
            m3 = re.search(r"Assertion `([^']*)' failed", err)
            where = re.search(r"(emboss_[a-z_]+\.h|m\.emb\.h):(\d+)", err)
            if m1:
                what = "ubsan: " + re.sub(r"[0-9]+", "N", m1.group(1))[:80]
            elif m2:
                what = "asan: " + m2.group(1)
            elif m3:
                what = "check-failed: " + m3.group(1)[:80]
            elif rc == -999:
                what = "timeout"
            else:
                what = "exit %s" % rc
            stats.fail({"kind": "unsafe-checked-call", "what": what, "where": (where.group(1) if where else "?"), "cmd": failing.split(" ", 1)[0]}, {"text": c["text"], "command": failing, "prefix": lines[: done + 1][-5:]}, "while executing %r\n%s" % (failing[:300], err[-2500:]))
    shutil.rmtree(root, ignore_errors=True)


FUZZ_FLAGS = ["clang++", "-std=c++14", "-O1", "-g", "-w", "-fsanitize=fuzzer,address,undefined", "-fno-sanitize-recover=all", "-fno-omit-frame-pointer"]


def fuzz_case(kind, files, main):
    from cppfarm import irdriver

    r = emb.compile_files(files, main=main)
    if not r.accepted:
        return None
    out = {main + ".h": r.header}
    for m in r.ir.module:
        nm = m.source_file_name
        if nm in ("", main):
            continue
        ri = emb.compile_files(files, main=nm)
        if not ri.accepted:
            return None
        out[nm + ".h"] = ri.header
    src, entries = irdriver.IrDriver(r.ir, text=True, deep=False).fuzz_source(main + ".h")
    if not entries:
        return None
    out["fuzz.cc"] = src
    return {"kind": kind, "files": files, "main": main, "build": out}


def fuzz_tier(ctx, stats):
    """Coverage-guided tier: one libFuzzer target per module (repository testdata and generated
    layout modules), built with ASan+UBSan; the input is (structure selector, parameters, second
    buffer length, buffer bytes); every checked member is called on it.  Empty starting corpus and a
    corpus of a few zero/ones buffers; -runs and -seed fixed, so only a saved crashing input is the
    reproducible unit."""
    import subprocess, concurrent.futures as cf

    rnd = random.Random(ctx.seed * 99991 + 3)
    corp = emb.corpus()
    names = [n for n in sorted(corp) if n.startswith("testdata/") and "/format/" not in n and "/golden/" not in n]
    n_corpus, n_gen, runs = ctx.pick((3, 3, 20000), (len(names), 24, 300000))
    picks = rnd.sample(names, min(n_corpus, len(names)))
    cases = [fuzz_case("corpus", dict(corp), n) for n in picks]
    for _ in range(n_gen):
        m, feats = semgen.layout_module(random.Random(rnd.randrange(2**62)))
        cases.append(fuzz_case("layout", {"m.emb": semgen.module_text(m)}, "m.emb"))
    cases = [c for c in cases if c]
    root = os.path.join(ctx.tmp, "fuzz")
    for i, c in enumerate(cases):
        c["dir"] = os.path.join(root, "f%d" % i)
        farm.write_files(c["dir"], c["build"])
        os.makedirs(os.path.join(c["dir"], "corpus"), exist_ok=True)
        for j, b in enumerate([bytes(40), bytes([0, 1, 2, 3, 4, 16]) + bytes([0xFF]) * 40, bytes(range(6, 70))]):
            with open(os.path.join(c["dir"], "corpus", "s%d" % j), "wb") as f:
                f.write(b)
    builds = farm.build_all([(c["dir"], "fuzz.cc", "fuzz", FUZZ_FLAGS, []) for c in cases])
    live = []
    for c, (d, ok, err) in zip(cases, builds):
        if not ok:
            first = next((l for l in err.split("\n") if "error" in l), err[:200])
            stats.fail({"kind": "does-not-compile-with-clang", "msg": re.sub(r"[0-9]+", "N", first)[-100:]}, {"files": c["files"], "main": c["main"]}, err[-3000:])
        else:
            live.append(c)

    def run_one(c):
        env = dict(os.environ, ASAN_OPTIONS="detect_leaks=0:allocator_may_return_null=1", UBSAN_OPTIONS="print_stacktrace=1:halt_on_error=1")
        seed = (ctx.seed % 2**31) or 1
        out = []
        for corpus in ("corpus", None):  # with the small valid-looking corpus, and from nothing
            args = [os.path.join(c["dir"], "fuzz"), "-runs=%d" % (runs // 2), "-seed=%d" % seed, "-max_len=160", "-artifact_prefix=%s/" % c["dir"], "-print_final_stats=1", "-verbosity=0"]
            if corpus:
                args.append(os.path.join(c["dir"], corpus))
            try:
                p = subprocess.run(args, capture_output=True, text=True, timeout=3600, env=env, errors="replace", cwd=c["dir"])
            except subprocess.TimeoutExpired:
                out.append((None, "timeout", ""))
                continue
            out.append((p.returncode, p.stderr[-6000:], corpus or "empty"))
        return out

    with cf.ThreadPoolExecutor(max_workers=int(os.environ.get("VERIF_PROCS", "16"))) as ex:
        results = list(ex.map(run_one, live))
    total_execs = 0
    for c, outs in zip(live, results):
        for rc, err, corpus in outs:
            mm = re.search(r"stat::number_of_executed_units:\s*(\d+)", err or "")
            execs = int(mm.group(1)) if mm else 0
            total_execs += execs
            stats.case([c["files"], "fuzz", corpus], True, ["fuzz:" + c["kind"], "fuzz-corpus:" + str(corpus)], sample={"kind": "libFuzzer target", "module_head": c["files"][c["main"]][:200], "executions": execs, "corpus": corpus} if execs else None)
            if rc not in (0, None):
                m1 = re.search(r"runtime error: ([^\n]*)", err)
                m2 = re.search(r"AddressSanitizer: ([a-z-]+)", err)
                m3 = re.search(r"Assertion `([^']*)' failed", err)
                what = ("ubsan: " + re.sub(r"[0-9]+", "N", m1.group(1))[:80]) if m1 else ("asan: " + m2.group(1)) if m2 else ("check-failed: " + m3.group(1)[:80]) if m3 else "exit %s" % rc
                where = re.search(r"(emboss_[a-z_]+\.h|\.emb\.h):(\d+)", err)
                crash = None
                for fn in sorted(os.listdir(c["dir"])):
                    if fn.startswith(("crash-", "oom-", "timeout-")):
                        with open(os.path.join(c["dir"], fn), "rb") as f:
                            crash = f.read().hex()
                        break
                stats.fail({"kind": "unsafe-checked-call", "what": what, "where": (where.group(1) if where else "?"), "cmd": "fuzz"}, {"files": c["files"], "main": c["main"], "input_hex": crash}, "libFuzzer target (%s corpus)\n%s" % (corpus, err[-2500:]))
    stats.extra["libfuzzer_executions"] = total_execs
    stats.extra["libfuzzer_targets"] = len(live)
    shutil.rmtree(root, ignore_errors=True)


def run(ctx):
    ctx.rule = RULE
    ctx.assumptions = [
        "sanitizers see undefined behaviour that executes; merely forming an out-of-range pointer without dereferencing it is invisible",
        "x86-64 little-endian, clang 14 -O1; the non-GNU and big-endian MemoryAccessor paths are not compiled",
        "Read() is only called after Ok(), Equals only when both views are Ok, element access only below ElementCount()",
    ]
    stats = vlib.Stats()
    if os.environ.get("VERIF_C04_ONLY") == "fuzz":  # development aid: the coverage-guided tier alone
        fuzz_tier(ctx, stats)
        ctx.stats = stats
        return ctx.finish(None)
    rnd = random.Random(ctx.seed * 67867967 + 13)
    n1, n2, n3 = ctx.pick((14, 8, 8), (160, 80, 80))
    run_group(ctx, stats, [layout_case(rnd.randrange(2**62), ctx.pick(3, 5), ctx.pick(10, 20)) for _ in range(n1)] + [layout_case(("stride-family", k, ctx.seed), 3, 10) for k in range(ctx.pick(3, 16))], "lay")
    wcases = []
    for _ in range(n2):
        c = C3.build_case(rnd.randrange(2**62), ctx.pick(120, 300), 0.5)
        if not c["rejected"]:
            c["kind"] = "writes"
        wcases.append(c)
    run_group(ctx, stats, wcases, "wr")
    ccases = []
    for _ in range(n3):
        c = C20.build_case(rnd.randrange(2**62))
        if not c["rejected"]:
            c["kind"] = "copy-equals"
        ccases.append(c)
    run_group(ctx, stats, ccases, "ce")
    fuzz_tier(ctx, stats)
    ctx.stats = stats
    return ctx.finish(None)


def replay(ctx, data):
    return True
