"""C12 — names resolve to the one lexically visible definition, or the module is rejected."""

import random

from hypothesis import strategies as st

import vlib
from vlib import emb
from embgen import scopes

PROPERTY = "C12"

RULE = (
    "cases = modules built from a random scope tree (1-2 files with an import alias, structs nested <= 3 deep, enums, parameters, abbreviations; names drawn "
    "from pools of ~5 per kind so reuse across sibling/nested scopes is the norm) with references at field-type, virtual-value, member-path, enum-value and "
    "imported-name sites, incl. injected faults (undefined, duplicate in one table, visible from two scopes, abbreviation from outside / after a dot, member of "
    "array / scalar, outer field from a nested type, missing import alias). Oracle = an independent resolver over the model: predicted success => no errors and "
    "every IR reference carries the predicted canonical name, every definition's canonical name unique and found by find_object; predicted fault => rejected, "
    ">= 1 error on a predicted line, no error on a line without a reference or definition, no exception. Non-trivial = nesting >= 2, a name reused in >= 2 scopes, >= 3 references."
)


def canonical_of_ir_name(cn):
    return (cn.module_file, tuple(cn.object_path))


def find_field(ir, file, path, name):
    mod = [m for m in ir.module if m.source_file_name == file][0]
    types = mod.type
    t = None
    for p in path:
        t = [x for x in types if x.name.name.text == p][0]
        types = t.subtype
    for f in t.structure.field:
        if f.name.name.text == name:
            return f
    for rp in t.runtime_parameter:
        if rp.name.name.text == name:
            return rp
    return None


def observed_target(field, ref):
    if ref.kind == "type":
        if hasattr(field, "physical_type_alias"):  # a parameter: its declared type
            r = field.physical_type_alias.atomic_type.reference
            return canonical_of_ir_name(r.canonical_name) if r.has_field("canonical_name") else None
        ty = field.type
        while ty.which_type == "array_type":
            ty = ty.array_type.base_type
        r = ty.atomic_type.reference
        return canonical_of_ir_name(r.canonical_name) if r.has_field("canonical_name") else None
    rt = field.read_transform
    if rt.which_expression == "field_reference":
        last = rt.field_reference.path[-1]
        return canonical_of_ir_name(last.canonical_name) if last.has_field("canonical_name") else None
    if rt.which_expression == "constant_reference":
        return canonical_of_ir_name(rt.constant_reference.canonical_name) if rt.constant_reference.has_field("canonical_name") else None
    return ("?", rt.which_expression)


def check(stats, case_seed):
    rnd = random.Random(case_seed)
    b = scopes.Builder(rnd)
    files = b.build()
    # final resolution of field types (definitions added later can create ambiguity)
    for sc in b.all_scopes():
        for d in sc.defs:
            ref = getattr(d, "_ref", None)
            if d.kind == "field" and ref is not None:
                out = scopes.resolve(ref, b.prelude)
                d.ftype = out[1] if out[0] == "ok" and out[1].kind in ("struct", "enum") and not getattr(out[1], "scalar", False) else None
    for ref in b.refs:
        if ref.kind == "type":
            holder = [d for d in ref.scope.defs if d.name == ref.holder and d.kind == "field"]
            out = scopes.resolve(ref, b.prelude)
            for h in holder:
                h.ftype = out[1] if out[0] == "ok" and out[1].kind in ("struct", "enum") and not getattr(out[1], "scalar", False) else None
    expect = {}
    fault_lines = {}
    for ref in b.refs:
        out = scopes.resolve(ref, b.prelude)
        if out[0] == "ok" and ref.kind == "type" and out[1].kind not in ("struct", "enum"):
            out = ("not-a-type", ref.path[-1])
        if out[0] == "ok" and ref.kind == "value" and out[1].kind not in ("field", "abbr", "param", "value"):
            out = ("not-a-value", ref.path[-1])
        expect[id(ref)] = out
        if out[0] != "ok":
            fault_lines.setdefault((ref.scope.file, ref.line), []).append(out[0])
    dup = []
    for sc in b.all_scopes():
        for d in sc.duplicates():
            dup.append(d)
            fault_lines.setdefault((sc.file, d.line), []).append("duplicate")
    main = "m.emb"
    case = {"files": files, "main": main}
    r = emb.compile_files(files, main, stop_before="annotate_types", gen_header=False, limit_s=60)
    depth = max(len(sc.path) for sc in b.all_scopes())
    names = {}
    for sc in b.all_scopes():
        for d in sc.defs:
            names.setdefault(d.name, set()).add(id(sc))
    reused = any(len(v) >= 2 for v in names.values())
    kinds = sorted(set(k for v in fault_lines.values() for k in v))
    stats.case(files, depth >= 2 and reused and len(b.refs) >= 3, ["predict-ok" if not fault_lines else "predict-fault"] + ["fault:" + k for k in kinds] + (["two-files"] if len(files) == 2 else []), sample={"files": files, "predicted_faults": {"%s:%d" % k: v for k, v in fault_lines.items()}})
    if r.exc:
        stats.fail(dict(kind="exception", **r.exc_sig), case, r.exc_text)
        return
    if not fault_lines:
        if r.errors:
            m = r.errors[0][0]
            stats.fail({"kind": "valid-references-rejected", "msg": m.message.split("'")[0][:40]}, case, "%s at %s:%s\n%s" % (m.message, m.source_file, m.location, emb.format_errors(r, files)[:1200]))
            return
        seen = {}
        for ref in b.refs:
            if getattr(ref, "no_binding_check", False):
                continue
            want = expect[id(ref)][1].canonical()
            f = find_field(r.ir, ref.scope.file, ref.scope.path, ref.holder)
            got = observed_target(f, ref) if f is not None else None
            if got != want:
                stats.fail({"kind": "wrong-binding", "ref": ref.kind, "segments": len(ref.path)}, dict(case, ref=".".join(ref.path), line=ref.line), "reference %s at %s:%d resolved to %r, the scoping rules designate %r" % (".".join(ref.path), ref.scope.file, ref.line, got, want))
        # canonical names unique and leading back to their definition
        from compiler.util import ir_util, ir_data

        for sc in b.all_scopes():
            for d in sc.defs:
                if d.kind in ("struct", "enum", "field", "value"):
                    cn = d.canonical()
                    if cn in seen:
                        stats.fail({"kind": "canonical-name-not-unique"}, case, "%r" % (cn,))
                    seen[cn] = d
                    obj = ir_util.find_object_or_none(ir_data.CanonicalName(module_file=cn[0], object_path=list(cn[1])), r.ir)
                    if obj is None or obj.name.name.text != d.name:
                        stats.fail({"kind": "canonical-name-does-not-lead-back", "def": d.kind}, case, "find_object(%r) -> %r" % (cn, obj and obj.name.name.text))
        return
    # predicted fault
    if not r.errors:
        stats.fail({"kind": "faulty-names-accepted", "faults": "+".join(kinds)}, case, "predicted faults %s but no error was reported" % ({"%s:%d" % k: v for k, v in fault_lines.items()},))
        return
    lines_with_things = set((ref.scope.file, ref.line) for ref in b.refs)
    for sc in b.all_scopes():
        for d in sc.defs:
            lines_with_things.add((sc.file, d.line))
    hit = False
    for g in r.errors:
        m = g[0]
        key = (m.source_file, m.location.start.line)
        if key in fault_lines:
            hit = True
        elif key not in lines_with_things:
            stats.fail({"kind": "error-on-unrelated-line"}, case, "%s at %s:%s" % (m.message, m.source_file, m.location))
    # duplicates are found by the very first pass (symbol table construction), which reports all of them:
    # every predicted duplicate must be named by some message (at either of the two definitions)
    def only_field_duplicates():
        for sc in b.all_scopes():
            first_of = {}
            for d in sc.defs:
                if d.name in first_of and not (d.kind == "field" and first_of[d.name].kind == "field" and d.line != first_of[d.name].line):
                    return False
                first_of.setdefault(d.name, d)
        return True

    # (type names are entered before field names, and a failure there ends the pass: the rule below is
    # applied only to modules whose duplicates are all between fields)
    if dup and only_field_duplicates():
        said = set((m.source_file, m.location.start.line) for g in r.errors for m in g)
        for sc in b.all_scopes():
            first_of = {}
            for d in sc.defs:
                if d.name in first_of:
                    # (only two *fields* on different lines: import aliases and abbreviations are reported by
                    # other passes, which may not run once this one has failed)
                    if d.kind == "field" and first_of[d.name].kind == "field" and d.line != first_of[d.name].line and (sc.file, d.line) not in said and (sc.file, first_of[d.name].line) not in said:
                        stats.fail({"kind": "duplicate-not-reported"}, case, "name %r is defined twice in one scope (%s lines %s and %s) but no message points at either definition; errors: %s" % (d.name, sc.file, first_of[d.name].line, d.line, [(g[0].message, g[0].source_file, str(g[0].location)) for g in r.errors][:4]))
                        return
                else:
                    first_of[d.name] = d
    if not hit:
        m = r.errors[0][0]
        stats.fail({"kind": "no-error-at-predicted-site", "faults": "+".join(kinds), "msg": m.message.split("'")[0][:30]}, case, "predicted %s; errors: %s" % ({"%s:%d" % k: v for k, v in fault_lines.items()}, [(g[0].message, g[0].source_file, str(g[0].location)) for g in r.errors][:4]))


def alias_member_family(stats, rnd):
    """Members looked up after a dot are looked up in the type of the field the head NAMES - also when
    the head is an alias of a dotted path (let v = a.b; v.c) or the alias the compiler adds for a member
    of an anonymous bits, when the type of the path's first element has a member of the same name, and
    whichever of alias and user is written first."""
    import types as _types

    pool = ["c", "d", "len", "kind", "x"]
    rnd.shuffle(pool)
    m1, m2 = pool[0], pool[1]
    users = [("w", "v.%s" % m1, ("Inner", m1)), ("x2", "v.%s" % m2, ("Inner", m2)), ("u2", "late.%s" % m1, ("Inner", m1)), ("direct", "a.b.%s" % m2, ("Inner", m2)), ("mid", "a.%s" % m1, ("Mid", m1)), ("z", "nn.%s" % m1, ("Nibble", m1)), ("vv", "v2.%s" % m1, ("Inner", m1))]
    rnd.shuffle(users)
    top = ["struct Top:", "  0 [+4]  Mid  a", "  4 [+1]  bits:", "    0 [+4]  Nibble  nn", "    4 [+4]  UInt  %s" % m1, "  let v = a.b", "  let v2 = v"]
    first = users[: len(users) // 2]
    for name, path, _ in first:
        if name not in ("u2",):
            top.append("  let %s = %s" % (name, path))
    top.append("  let u2 = late.%s" % m1)  # the user comes before the alias it goes through
    top.append("  let late = a.b")
    for name, path, _ in users[len(users) // 2 :]:
        if name not in ("u2",):
            top.append("  let %s = %s" % (name, path))
    text = "\n".join(['[$default byte_order: "LittleEndian"]', "bits Nibble:", "  0 [+2]  UInt  %s" % m1, "  2 [+2]  UInt  %s" % m2, "struct Inner:", "  0 [+1]  UInt  %s" % m1, "  1 [+1]  UInt  %s" % m2, "struct Mid:", "  0 [+2]  Inner  b", "  2 [+1]  UInt  %s" % m1, "  3 [+1]  UInt  %s" % m2] + top) + "\n"
    files = {"m.emb": text}
    case = {"files": files, "main": "m.emb"}
    r = emb.compile_files(files, "m.emb", stop_before="annotate_types", gen_header=False, limit_s=60)
    stats.case(files, True, ["alias-member-family", "predict-ok"], sample=None)
    if r.exc:
        stats.fail(dict(kind="exception", **r.exc_sig), case, r.exc_text)
        return
    if r.errors:
        mm = r.errors[0][0]
        stats.fail({"kind": "valid-references-rejected", "msg": mm.message.split("'")[0][:40]}, case, "%s at %s:%s" % (mm.message, mm.source_file, mm.location))
        return
    ref = _types.SimpleNamespace(kind="value")
    for name, path, want in users:
        f = find_field(r.ir, "m.emb", ["Top"], name)
        got = observed_target(f, ref) if f is not None else None
        if got != ("m.emb", want):
            stats.fail({"kind": "wrong-binding", "ref": "value-through-alias", "segments": path.count(".") + 1}, dict(case, ref=path), "reference %s (let %s) resolved to %r, the scoping rules designate %r" % (path, name, got, ("m.emb", want)))


def shard(idx, seed, n):
    stats = vlib.Stats()
    fam = random.Random(seed * 131 + idx)
    for _ in range(3):
        alias_member_family(stats, fam)
    vlib.hyp_run(st.integers(0, 2**63), lambda s: check(stats, s), n, seed=seed * 1069 + idx)
    return stats


def run(ctx):
    ctx.rule = RULE
    ctx.assumptions = [
        "the scoping model in embgen/scopes.py (from compiler-design.md 'Symbol Resolution'); the pipeline is stopped before annotate_types so only name resolution, dependency and field-reference passes run",
    ]
    ctx.stats = vlib.run_shards(shard, 16, seed=ctx.seed, n=ctx.pick(120, 2000))
    return ctx.finish(None)


def replay(ctx, data):
    c = data["case"]
    r = emb.compile_files(c["files"], c["main"], stop_before="annotate_types", gen_header=False)
    print("replay outcome:", r.exc_sig or [g[0].message for g in r.errors][:5] or "accepted")
    return True
