"""C14 — physical layout and attribute rules are enforced exactly as documented."""

import random
import re

from hypothesis import strategies as st

import vlib
from vlib import emb
from embgen import physical

PROPERTY = "C14"

RULE = (
    "cases = boundary-heavy realisable modules (every scalar width incl. 1/63/64 bits and 1-8 bytes, Float 32/64, enums at 0, +-2^63, 2^64-1, maximum_bits 1..64, "
    "is_signed, bits of 8..64 bits, arrays of byte-multiple elements incl. 2-D and automatic length, $default byte_order at module/struct level with per-field "
    "overrides, Null on one byte, field/struct/enum attributes) that must be accepted, and one violation per base from the documented catalogue (widths 0/65, "
    "Float 16/33, Flag:2, enum range/sign/maximum_bits, 65-bit bits, struct in bits, dynamic array elements, sub-byte elements, size mismatches, byte-order "
    "rules, attribute scope/duplication/values, reserved words) that must be rejected with a located error and no exception. "
    "Non-trivial = base with >= 4 fields; distinct by module text."
)


def evaluate(stats, text, expect_accept, rule=None, span=None):
    r = emb.compile_files({"m.emb": text})
    case = {"text": text, "expect": "accept" if expect_accept else "reject", "rule": rule}
    if r.exc:
        stats.fail(dict(kind="exception", **r.exc_sig), case, r.exc_text)
        return "exception"
    if expect_accept:
        if not r.accepted:
            m = r.errors[0][0]
            msg = m.message.split("\n")[0]
            line = text.split("\n")[m.location.start.line - 1] if 0 < m.location.start.line <= text.count("\n") else ""
            stats.fail({"kind": "realisable-rejected", "msg": re.sub(r"'[^']*'", "'_'", re.sub(r"[0-9]+", "N", msg))[:70]}, case, "%s at %s\n  %s" % (msg, m.location, line))
            return "rejected"
        return "accepted"
    if r.accepted:
        stats.fail({"kind": "violation-accepted", "rule": rule}, case, "violation %r accepted" % (rule,))
        return "accepted"
    # the shape/location of the diagnostics is C16's subject, not compared here
    return "rejected"


def shard(idx, seed, n):
    stats = vlib.Stats()
    V = physical.violations(emb.REPO)

    def body(case_seed):
        rnd = random.Random(case_seed)
        b, info = physical.build_base(rnd)
        text, spans = b.render()
        out = evaluate(stats, text, True)
        stats.case(text, len(b.fields) >= 4, ["base", "base-" + out], sample={"kind": "base", "text": text[:900]})
        if out != "accepted":
            return
        for _ in range(2):
            name, fn = rnd.choice(V)
            b2, info2 = physical.build_base(random.Random(case_seed))
            tag = fn(rnd, b2, info2)
            text2, spans2 = b2.render()
            o = evaluate(stats, text2, False, name, spans2.get(tag))
            stats.case(text2, len(b.fields) >= 4, ["violation", "violation-" + o, "rule:" + name], sample={"kind": "violation", "rule": name, "text": text2[-500:]})

    vlib.hyp_run(st.integers(0, 2**63), body, n, seed=seed * 1063 + idx)
    return stats


def run(ctx):
    ctx.rule = RULE
    ctx.assumptions = [
        "the catalogue of rules is the one in doc/language-reference.md as summarised in DESIGN §4 C14; a fixed-size type in a larger field counts as a violation (pinned by constraints_test)",
        "the error for a violation need only exist, be well-formed and located in the file (which line reports it is not compared: several rules are reported at the type, not the use)",
    ]
    ctx.stats = vlib.run_shards(shard, 16, seed=ctx.seed, n=ctx.pick(40, 800))
    V = physical.violations(emb.REPO)
    seen = set(k[5:] for k in ctx.stats.classes if k.startswith("rule:"))
    ctx.coverage_extra["catalogue_size"] = len(V)
    ctx.coverage_extra["catalogue_rules_exercised"] = len(seen)
    for kf in ctx.known:
        rep = kf.get("reproducer")
        if kf.get("status") == "known" and rep:
            st_ = vlib.Stats()
            evaluate(st_, rep["text"], rep["expect"] == "accept", rep.get("rule"))
            if not any(vlib.sig_matches(kf["matcher"], f["sig"]) for f in st_.failures):
                print("NOTE: known finding %s no longer reproduces from its literal reproducer" % kf["id"])
            ctx.stats.failures.extend(st_.failures)
    return ctx.finish(None)


def replay(ctx, data):
    c = data["case"]
    st_ = vlib.Stats()
    evaluate(st_, c["text"], c["expect"] == "accept", c.get("rule"))
    for f in st_.failures:
        print("still failing:", f["sig"], str(f["detail"])[:500])
    return not st_.failures
