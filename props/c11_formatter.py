"""C11 — the formatter preserves meaning, is idempotent, never fails on valid input."""

import json
import os
import random
import re
import traceback

from hypothesis import strategies as st

import vlib
from vlib import emb
from embgen import gsample, textmut

from compiler.front_end import format_emb, module_ir, parser, tokenizer
from compiler.util import ir_data_utils

PROPERTY = "C11"

RULE = (
    "cases = (parseable text, indent width 1..8): noisy renderings of random grammar derivations (every production reachable), "
    "corpus files and their token/line mutations that still parse, model-printed programs with odd spacing; oracle = no exception, two-sided token "
    "equivalence (symbols and stripped texts, newline runs collapsed), re-parse + module IR equality modulo source positions and trailing blanks in docs, "
    "idempotence, agreement of the built-in sanity check. Non-trivial = >=1 type with >=2 fields, >=1 comment/doc/attribute and formatted != original; "
    "distinct by (text, width) hash."
)


def parse_text(text):
    toks, errs = tokenizer.tokenize(text, "f.emb")
    if errs:
        return None, None
    r = parser.parse_module(toks)
    if r.error:
        return toks, None
    return toks, r.parse_tree


def norm_tokens(toks):
    out = []
    for t in toks:
        if t.symbol == '"\\n"':
            if out and out[-1][0] != '"\\n"':
                out.append(('"\\n"', ""))
            continue
        if t.symbol in ("Indent", "Dedent"):
            out.append((t.symbol, ""))
        else:
            out.append((t.symbol, t.text.strip()))
    return out


def strip_ir(obj):
    """JSON-dict form of a module IR without positions; doc text right-stripped."""
    if isinstance(obj, dict):
        out = {}
        for k, v in obj.items():
            if k == "source_location":
                continue
            out[k] = strip_ir(v)
        if set(out) >= {"text"} and isinstance(out.get("text"), str):
            out["text"] = out["text"].rstrip()
        return out
    if isinstance(obj, list):
        return [strip_ir(x) for x in obj]
    return obj


ANON = re.compile(r"emboss_reserved_anonymous_field_\d+|EmbossReservedAnonymousField\d+")


def module_ir_dict(tree):
    ir = module_ir.build_ir(tree)
    s = ir_data_utils.IrDataSerializer(ir).to_json()
    # anonymous-bits names come from a global counter; number them per module
    names = {}

    def ren(m):
        base = re.sub(r"\d+$", "", m.group(0))
        key = m.group(0).lower().replace("_", "")
        key = re.sub(r"\D", "", m.group(0))
        names.setdefault(key, str(len(names)))
        return base + "N" + names[key]

    s = ANON.sub(ren, s)
    return strip_ir(json.loads(s))


def check(text, width):
    """Returns (sigs, info)."""
    out = []
    info = {"changed": False, "parsed": False}
    toks, tree = parse_text(text)
    if tree is None:
        return out, info
    info["parsed"] = True
    cfg = format_emb.Config(indent_width=width)
    try:
        f = format_emb.format_emboss_parse_tree(tree, cfg)
    except Exception:
        return [(dict(kind="format-exception", **emb.exc_signature()), traceback.format_exc())], info
    info["changed"] = f != text
    ftoks, ftree = parse_text(f)
    if ftoks is None:
        out.append(({"kind": "output-not-tokenizable"}, "formatted text does not tokenize:\n" + f[:600]))
        return out, info
    a, b = norm_tokens(toks), norm_tokens(ftoks)
    mismatch = None
    if a != b:
        for i in range(max(len(a), len(b))):
            x = a[i] if i < len(a) else None
            y = b[i] if i < len(b) else None
            if x != y:
                mismatch = i
                out.append(({"kind": "tokens-changed", "orig": x[0] if x else None, "fmt": y[0] if y else None}, "token %d: original %r, formatted %r\n--- formatted:\n%s" % (i, x, y, f[:800])))
                break
    try:
        errs = format_emb.sanity_check_format_result(f, text)
    except Exception:
        errs = None
        out.append((dict(kind="sanity-check-exception", **emb.exc_signature()), traceback.format_exc()))
    if errs is not None and bool(errs) != (mismatch is not None):
        # the built-in check walks only the original's length; disagreement is a finding about the self-check
        out.append(({"kind": "sanity-check-disagrees", "builtin": bool(errs)}, "built-in sanity check says %r; two-sided comparison says mismatch=%r" % (errs, mismatch)))
    if ftree is None:
        out.append(({"kind": "output-does-not-parse"}, "formatted text does not parse:\n" + f[:800]))
        return out, info
    try:
        ia, ib = module_ir_dict(tree), module_ir_dict(ftree)
        if ia != ib:
            out.append(({"kind": "ir-changed"}, "module IR differs after formatting\n--- formatted:\n" + f[:800]))
    except Exception:
        out.append((dict(kind="build-ir-exception", **emb.exc_signature()), traceback.format_exc()))
    try:
        f2 = format_emb.format_emboss_parse_tree(ftree, cfg)
        if f2 != f:
            la, lb = f.split("\n"), f2.split("\n")
            d = next((i for i in range(min(len(la), len(lb))) if la[i] != lb[i]), min(len(la), len(lb)))
            out.append(({"kind": "not-idempotent"}, "second formatting differs at line %d:\n1st: %r\n2nd: %r" % (d + 1, la[d] if d < len(la) else None, lb[d] if d < len(lb) else None)))
    except Exception:
        out.append((dict(kind="reformat-exception", **emb.exc_signature()), traceback.format_exc()))
    return out, info


def nontrivial(text):
    fields = len(re.findall(r"^\s+\S.*\[\s*\+.*\]", text, re.M))
    return fields >= 2 and bool(re.search(r"#|--|\[[a-z$(]", text)) and bool(re.search(r"^\s*(struct|bits|enum)\s", text, re.M))


_corpus_texts = None


def corpus_texts():
    global _corpus_texts
    if _corpus_texts is None:
        _corpus_texts = [t for n, t in sorted(emb.corpus().items()) if not n.startswith("compiler/")]
    return _corpus_texts


COMMENT_BLOCKS = [
    ["# ----", "# Title", "# ----"],
    ["#", "# A sentence.", "#"],
    ["# ====", "# one", "# two", "# ===="],
    ["#", "#", "# x", "#", "#"],
    ["# a", "# b", "# a"],
    ["# a  ", "# b", "# a  "],
    ["#", "# only", ""],
    ["# same", "# same", "# same"],
    ["", "#", "", "# t", "", "#", ""],
]


def with_comment_blocks(rnd, text):
    """Blocks of comment-only lines with repeated, framing and blank lines, put before arbitrary lines."""
    lines = text.split("\n")
    for _ in range(rnd.choice([1, 1, 2, 3])):
        at = rnd.randrange(len(lines) + 1)
        nxt = lines[at] if at < len(lines) else ""
        ind = nxt[: len(nxt) - len(nxt.lstrip(" "))] if rnd.random() < 0.7 else " " * rnd.choice([0, 1, 2, 4, 7])
        block = [(ind + l if l else l) for l in rnd.choice(COMMENT_BLOCKS)]
        lines[at:at] = block
    return "\n".join(lines)


def build_text(rnd):
    klass, text = build_text_plain(rnd)
    if rnd.random() < 0.25:
        return klass + "+comment-blocks", with_comment_blocks(rnd, text)
    return klass, text


def build_text_plain(rnd):
    k = rnd.random()
    if k < 0.5:
        terms = gsample.random_module_terms(rnd)
        return "grammar-noisy", gsample.render(rnd, terms, noisy=True)
    if k < 0.6:
        return "corpus", rnd.choice(corpus_texts())
    if k < 0.9:
        return "corpus-mutation", textmut.mutate(rnd, rnd.choice(corpus_texts()), n_mut=rnd.choice([1, 1, 2]))
    try:
        from embgen import semgen

        return "model-noisy", semgen.noisy_program_text(rnd)
    except ImportError:
        terms = gsample.random_module_terms(rnd)
        return "grammar-noisy", gsample.render(rnd, terms, noisy=True)


def shard(idx, seed, n, widths):
    stats = vlib.Stats()

    def body(case_seed):
        rnd = random.Random(case_seed)
        klass, text = build_text(rnd)
        ws = rnd.sample(range(1, 9), widths)
        first = True
        for w in ws:
            sigs, info = check(text, w)
            if not info["parsed"]:
                stats.discards += 1
                return
            stats.case([text, w], nontrivial(text) and info["changed"], [klass, "changed" if info["changed"] else "unchanged", "width=%d" % w], sample={"class": klass, "width": w, "text": text[:400]} if first else None)
            first = False
            for sig, detail in sigs:
                stats.fail(sig, {"text": text, "width": w}, detail)

    vlib.hyp_run(st.integers(0, 2**63), body, n, seed=seed * 1033 + idx)
    rnd = random.Random(seed * 77 + idx)
    for _ in range(max(1, n // 40)):
        cli_batch(stats, rnd, [build_text(rnd)[1] for _ in range(rnd.choice([2, 3, 4]))], rnd.choice([1, 2, 3, 4, 8]))
    return stats


def cli_batch(stats, rnd, texts, width):
    """The emboss-format program itself (compiler/front_end/format.py main) on several files in one
    invocation, in place: afterwards every file must hold the formatting of ITS OWN original text, and
    a second invocation must change nothing; --no-edit-in-place prints the same text for one file."""
    import contextlib, io, shutil, tempfile
    from compiler.front_end import format as format_main

    d = tempfile.mkdtemp(prefix="verif_c11cli_")
    try:
        names = []
        expected = {}
        for i, t in enumerate(texts):
            toks, tree = parse_text(t)
            if tree is None:
                continue
            n = os.path.join(d, "f%d.emb" % i)
            with open(n, "w", newline="") as f:
                f.write(t)
            with open(n) as f:
                as_read = f.read()  # the program reads with universal newlines
            toks2, tree2 = parse_text(as_read)
            if tree2 is None:
                continue
            expected[n] = format_emb.format_emboss_parse_tree(tree2, format_emb.Config(indent_width=width))
            names.append(n)
        if len(names) < 2:
            stats.discards += 1
            return
        case = {"texts": [open(n).read() for n in names], "width": width}
        err = io.StringIO()

        def run_program(argv, out=None):
            """The program never raises on parseable input: an exception escaping main() is a verdict."""
            try:
                with contextlib.redirect_stderr(err), contextlib.redirect_stdout(out or io.StringIO()):
                    return format_main.main(argv), False
            except BaseException as e:  # SystemExit included: main() returns its status
                if isinstance(e, (KeyboardInterrupt, MemoryError)):
                    raise
                stats.fail(dict(kind="cli-raises", **emb.exc_signature()), case, "emboss-format %s raised\n%s" % (" ".join(os.path.basename(a) if a.endswith(".emb") else a for a in argv[1:]), traceback.format_exc()[-1500:]))
                return None, True

        rc, raised = run_program(["emboss-format", "--indent", str(width), "--color-output", "never"] + names)
        if raised:
            return
        stats.case([case["texts"], width, "cli"], len(names) >= 2, ["cli-multi-file", "files=%d" % len(names)], sample={"class": "cli-multi-file", "files": len(names), "width": width})
        for n in names:
            got = open(n).read()
            if got != expected[n]:
                whose = [os.path.basename(m) for m in names if expected[m] == got]
                stats.fail({"kind": "cli-in-place-wrong-content", "holds": "another file's text" if whose else "something else"}, case, "after `emboss-format --indent %d %s`, %s does not hold the formatting of its own text%s (exit %r, stderr %r)" % (width, " ".join(os.path.basename(x) for x in names), os.path.basename(n), (" but that of " + ", ".join(whose)) if whose else "", rc, err.getvalue()[:300]))
                return
        if run_program(["emboss-format", "--indent", str(width), "--color-output", "never"] + names)[1]:
            return
        for n in names:
            if open(n).read() != expected[n]:
                stats.fail({"kind": "cli-second-run-changes-file"}, case, "a second emboss-format run changed %s" % os.path.basename(n))
                return
        out = io.StringIO()
        if run_program(["emboss-format", "--no-edit-in-place", "--indent", str(width), "--color-output", "never", names[0]], out)[1]:
            return
        if out.getvalue() not in (expected[names[0]], expected[names[0]] + "\n"):
            stats.fail({"kind": "cli-stdout-differs"}, case, "--no-edit-in-place printed something other than the formatted text")
    finally:
        shutil.rmtree(d, ignore_errors=True)


def minimise(sig, case, detail):
    if "text" not in case:
        return None, None
    text, w = case["text"], case["width"]

    def fails_text(t):
        return any(s == sig for s, _ in check(t, w)[0])

    if not fails_text(text):
        return None, None
    lines = vlib.ddmin(text.split("\n"), lambda ls: fails_text("\n".join(ls)), max_tests=400)
    text = "\n".join(lines)
    toks = textmut.split_tokens(text)
    toks = vlib.ddmin(toks, lambda ts: fails_text("".join(ts)), max_tests=600)
    text = "".join(toks)
    det = [d for s, d in check(text, w)[0] if s == sig]
    return {"text": text, "width": w}, det[0] if det else detail


def run(ctx):
    ctx.rule = RULE
    ctx.assumptions = [
        "equivalence = same token symbols and same token texts after stripping leading/trailing whitespace, newline-token runs collapsed (the relation the formatter's own self-check documents), checked in both directions",
        "IR equality is on module_ir.build_ir output with source positions removed, documentation text right-stripped, anonymous-bits numbering canonicalised",
    ]
    per = ctx.pick(110, 1400)
    widths = ctx.pick(2, 6)
    ctx.stats = vlib.run_shards(shard, 16, seed=ctx.seed, n=per, widths=widths)
    for kf in ctx.known:
        rep = kf.get("reproducer")
        if kf.get("status") == "known" and rep:
            sigs, _ = check(rep["text"], rep["width"])
            if not any(vlib.sig_matches(kf["matcher"], s) for s, _ in sigs):
                print("NOTE: known finding %s no longer reproduces from its literal reproducer" % kf["id"])
            for s, d in sigs:
                ctx.stats.fail(s, rep, d)
    return ctx.finish(minimise)


def replay(ctx, data):
    c = data["case"]
    if "texts" in c:
        st_ = vlib.Stats()
        cli_batch(st_, random.Random(0), c["texts"], c["width"])
        for f in st_.failures:
            print("still failing:", f["sig"], f["detail"][:600])
        return not st_.failures
    sigs, _ = check(c["text"], c["width"])
    for s, d in sigs:
        print("still failing:", s, d[:600])
    return not sigs
