"""C02 — scalar fields decode with the documented byte order, bit numbering and format."""

import random

import vlib
from vlib import emb
from embgen import model as M, semgen
from props import c01_views as C1

PROPERTY = "C02"

RULE = (
    "cases = (configuration, container contents): configuration = type in {UInt, Int, Bcd, Flag, Float, unsigned enum, signed enum} x legal width x container "
    "8..64 bits x bit offset (o+w <= c) x byte order {LE, BE, Null for one byte}, packed ~40 per generated `bits` type (each read through an LE and a BE field), "
    "plus scalars placed directly in a struct at byte offsets 0..7 with 1..8-byte sizes; contents = zeros, ones, walking 1, walking 0, 0x55/0xAA, sign-bit "
    "patterns, invalid-Bcd nibbles and random draws. Oracle = independent big-int decode of bits [o, o+w) of the container read in the field's byte order "
    "(embref.codec): Read() value, Ok() (false exactly for invalid Bcd), Float by bit pattern. quick = seeded sample that always contains widths "
    "{1,2,3,4,7,8,9,15,16,17,31,32,33,63,64} and offsets {0, c-w}; thorough = many more samples. Non-trivial = configuration evaluated on non-zero contents; "
    "distinct by (type, w, c, o, order, contents)."
)

KEY_WIDTHS = [1, 2, 3, 4, 7, 8, 9, 15, 16, 17, 31, 32, 33, 63, 64]


def make_module(rnd, c):
    m = M.Module("m.emb")
    m.namespace = "v::c2"
    m.default_byte_order = None
    eu = M.Enum("Eu", [("AA", 0), ("BB", 1), ("CC", 5)])
    es = M.Enum("Es", [("NEG", -1), ("ZZ", 0), ("POS", 1)], is_signed=True)
    m.types += [eu, es]
    bt = M.Struct("bits", "Bc")
    n = 0
    configs = []
    widths = [w for w in KEY_WIDTHS if w <= c]
    for i in range(40):
        kind = rnd.choice(["UInt", "UInt", "Int", "Int", "Bcd", "Bcd", "Flag", "eu", "es"])
        if i < len(widths) * 2:
            w = widths[i % len(widths)]
            o = 0 if i < len(widths) else c - w
        else:
            w = rnd.randrange(1, c + 1)
            o = rnd.randrange(0, c - w + 1)
        if kind == "Flag":
            w = 1
            o = min(o, c - 1)
        if kind in ("eu", "es") and w < 3:
            kind = "UInt"
        n += 1
        name = "%s%d_%d_%d" % (kind[:2].lower(), w, o, n)
        if kind in ("eu", "es"):
            t = M.Type("enum", w, explicit=rnd.random() < 0.3, name="Eu" if kind == "eu" else "Es")
            t.target = eu if kind == "eu" else es
        else:
            t = M.Type(kind, w, explicit=(kind != "Flag" and rnd.random() < 0.3))
        bt.fields.append(M.Field(name, ("n", o), ("n", w), t))
        configs.append((kind, w, c, o))
    # the container's top bit must be covered so that the type has exactly c bits
    if max(f.start[1] + f.size[1] for f in bt.fields) < c:
        bt.fields.append(M.Field("top_", ("n", c - 1), ("n", 1), M.Type("UInt", 1)))
    bt.static_bits = c
    m.types.append(bt)
    st = M.Struct("struct", "Foo")
    nb = c // 8
    for i, (nm, bo) in enumerate([("le", "LittleEndian"), ("be", "BigEndian")] + ([("nu", "Null")] if c == 8 else [])):
        t = M.Type("bits", name="Bc")
        t.target = bt
        f = M.Field(nm, ("n", i * nb), ("n", nb), t)
        f.byte_order = bo
        st.fields.append(f)
    m.types.append(st)
    # scalars directly in a struct.  The byte order reaches a field explicitly or through
    # $default at module / struct level (a later struct relies on the module default while
    # an earlier one overrides it), so attribute defaulting is part of what is decoded.
    m.default_byte_order = rnd.choice([None, "LittleEndian", "BigEndian"])
    pos = rnd.randrange(0, 8)
    for sname, nfields in (("Bar", 10), ("Baz", 6)):
        sc = M.Struct("struct", sname)
        if sname == "Bar":
            sc.default_byte_order = rnd.choice([None, None, "LittleEndian", "BigEndian"])
            if m.default_byte_order and sc.default_byte_order and rnd.random() < 0.7:
                sc.default_byte_order = "BigEndian" if m.default_byte_order == "LittleEndian" else "LittleEndian"
        inherited = sc.default_byte_order or m.default_byte_order
        for i in range(nfields):
            nbytes = rnd.choice([1, 2, 3, 4, 5, 6, 7, 8])
            kind = rnd.choice(["UInt", "Int", "Bcd", "Float", "eu", "es"])
            if kind == "Float":
                nbytes = rnd.choice([4, 8])
            if kind in ("eu", "es"):
                t = M.Type("enum", nbytes * 8, name="Eu" if kind == "eu" else "Es")
                t.target = eu if kind == "eu" else es
            else:
                t = M.Type(kind, nbytes * 8, explicit=rnd.random() < 0.3)
            f = M.Field("s%s%d_%d" % (kind[:1].lower(), nbytes, i), ("n", pos), ("n", nbytes), t)
            f.byte_order = rnd.choice(["LittleEndian", "BigEndian"]) if nbytes > 1 else rnd.choice(["LittleEndian", "BigEndian", "Null"])
            if inherited and (f.byte_order == inherited or rnd.random() < 0.5) and f.byte_order != "Null":
                f.byte_order = None  # take the inherited default
            sc.fields.append(f)
            pos += rnd.choice([0, nbytes, nbytes, 1])  # overlaps allowed
        sc.bar_len = max(f.start[1] + f.size[1] for f in sc.fields)
        m.types.append(sc)
        pos = rnd.randrange(0, 4)
    for t in m.types:
        semgen.set_parents(t, None)
    return m, configs


def patterns(rnd, c, nrandom):
    full = (1 << c) - 1
    vals = [0, full, int("55" * (c // 8), 16), int("AA" * (c // 8), 16), 1 << (c - 1), full >> 1]
    vals += [1 << i for i in range(c)]
    vals += [full ^ (1 << i) for i in range(0, c, 3)]
    # invalid Bcd nibbles in every position
    for i in range(0, c, 4):
        vals.append((rnd.choice([0xA, 0xB, 0xF]) << i) & full)
        vals.append(((0x9999999999999999 & full) & ~(0xF << i)) | ((0xC << i) & full))
    vals += [rnd.getrandbits(c) for _ in range(nrandom)]
    vals += [int("99" * (c // 8), 16), int("12345678" * 2, 16) & full]
    return vals


def builder_for(ctx, nrandom):
    def build(case_seed):
        rnd = random.Random(case_seed)
        c = rnd.choice([8, 16, 24, 32, 40, 48, 56, 64])
        m, configs = make_module(rnd, c)
        nb = c // 8

        def plan(s):
            out = []
            if s.name == "Foo":
                for v in patterns(rnd, c, nrandom):
                    le = v.to_bytes(nb, "little")
                    be = v.to_bytes(nb, "big")
                    b = le + be + (le if c == 8 else b"")
                    out.append((b, [len(b)]))
            else:
                n = s.bar_len
                for _ in range(24):
                    k = rnd.random()
                    if k < 0.2:
                        b = bytes([rnd.choice([0x00, 0xFF, 0x80, 0x7F, 0x99])] * n)
                    else:
                        b = bytes(rnd.randrange(256) for _ in range(n))
                    out.append((b, [n]))
            return out

        case = C1.build_case_model(m, {"c=%d" % c}, rnd, 0, 0, buffer_plan=plan, aligned_fn=lambda r: r.choice([0, 0, "char", 2, 4, 8]))
        case["configs"] = configs
        case["per_observation"] = True
        case["cid"] = case_seed
        return case

    return build


def run(ctx):
    ctx.rule = RULE
    ctx.assumptions = [
        "x86-64, g++ 12 (-O0); 3/5 of the views are made with MakeAligned...View<2|4|8> over 16-byte aligned storage so the aligned MemoryAccessor fast paths are instantiated; non-GNU and big-endian host paths are not compiled",
        "Float values are compared by bit pattern (S() memcpy in the driver)",
    ]
    nmod = ctx.pick(24, 400)
    rnd = random.Random(ctx.seed * 104729 + 5)
    seeds = [rnd.randrange(2**62) for _ in range(nmod)]
    ctx.stats = C1.run_batch(ctx, seeds, 0, 0, "c02", builder=builder_for(ctx, ctx.pick(12, 40)))
    return ctx.finish(None)


def replay(ctx, data):
    return True
