"""C13 — expression typing: well-typed modules accepted, ill-typed ones rejected."""

import random

from hypothesis import strategies as st

import vlib
from vlib import emb
from embgen import typed

PROPERTY = "C13"

RULE = (
    "cases = well-typed base modules from a type-directed generator (int / bool / enum expression generators, depth <= 4) placed at every position "
    "with a required type (offset, size, array length, enum value, condition, field and struct [requires], passed parameters, virtual values, ?: branches, "
    "$max/$present/bound functions), and for each base one single-rule violation: a sub-expression or a whole positional expression replaced by one of a "
    "different type. Oracle: base accepted; mutant rejected without exception, every message non-synthetic, >= 1 message inside the mutated definition. "
    "Non-trivial = base has >= 3 expressions of depth >= 2 and the mutation is below top level; distinct by module text."
)


def evaluate(stats, text, expect_accept, desc=None, span=None, base_text=None):
    r = emb.compile_files({"m.emb": text, "o.emb": typed.OTHER_MODULE})
    case = {"text": text, "expect": "accept" if expect_accept else "reject", "mutation": desc}
    if r.exc:
        stats.fail(dict(kind="exception", **r.exc_sig), case, r.exc_text)
        return "exception"
    if expect_accept:
        if not r.accepted:
            m = r.errors[0][0]
            msg = m.message.split("\n")[0]
            import re

            stats.fail({"kind": "well-typed-rejected", "msg": re.sub(r"'[^']*'", "'_'", re.sub(r"[0-9]+", "N", msg))[:70]}, case, "%s at %s\n%s" % (msg, m.location, emb.format_errors(r, {"m.emb": text})[:1500]))
            return "rejected"
        return "accepted"
    if r.accepted:
        stats.fail({"kind": "ill-typed-accepted", "site": desc["site"], "parent": desc["parent"], "had": desc["had"], "got": desc["got"]}, case, "mutation %r accepted" % (desc,))
        return "accepted"
    probs = emb.check_error_shape(r, {"m.emb": text, "o.emb": typed.OTHER_MODULE})
    for kind, t in probs:
        stats.fail({"kind": kind, "site": desc["site"]}, case, t)
    lines = [m.location.start.line for g in r.errors for m in g if not m.location.is_synthetic]
    if span and not any(span[0] <= ln <= span[1] for ln in lines) and not probs:
        first = r.errors[0][0]
        stats.fail({"kind": "error-not-in-mutated-definition", "site": desc["site"], "parent": desc["parent"]}, case, "mutated definition spans lines %s; messages at lines %s: %s" % (span, lines, first.message.split("\n")[0]))
    return "rejected"


def evaluate_as_import(stats, base_text, bad_text, desc):
    """A module that breaks a typing rule is rejected as well when it is an import of a well-typed
    module - here one whose text occupies the very same lines and columns."""
    files = {"m.emb": 'import "v.emb" as v\n' + base_text, "v.emb": "# imported\n" + bad_text, "o.emb": typed.OTHER_MODULE}
    r = emb.compile_files(files)
    case = {"files": files, "main": "m.emb", "expect": "reject", "mutation": desc}
    if r.exc:
        stats.fail(dict(kind="exception", **r.exc_sig), case, r.exc_text)
        return "exception"
    if r.accepted:
        stats.fail({"kind": "ill-typed-import-accepted", "site": desc["site"], "parent": desc["parent"], "had": desc["had"], "got": desc["got"]}, case, "a module with mutation %r, rejected on its own, is accepted as an import of a well-typed module" % (desc,))
        return "accepted"
    for kind, t in emb.check_error_shape(r, files):
        stats.fail({"kind": kind, "site": desc["site"]}, case, t)
    return "rejected"


def shard(idx, seed, n):
    stats = vlib.Stats()

    def body(case_seed):
        rnd = random.Random(case_seed)
        render, S = typed.build_module(rnd)
        text, spans = render(S)
        deep = sum(1 for s in S.values() if s.expr.depth() >= 2)
        out = evaluate(stats, text, True)
        stats.case(text, deep >= 3, ["base", "base-" + out], sample={"kind": "base", "text": text[-700:]})
        if out != "accepted":
            return
        for _ in range(3):
            S2, desc, tag = typed.mutate(rnd, S)
            if desc["site"].startswith("virtual") and desc["where"] == "top":
                # a virtual field may have any type: replacing its whole value is not a violation
                stats.discards += 1
                continue
            text2, spans2 = render(S2)
            if text2 == text:
                continue
            o = evaluate(stats, text2, False, desc, spans2.get(tag))
            if o == "rejected":
                stats.classes["as-import-" + evaluate_as_import(stats, text, text2, desc)] += 1
            stats.case(text2, deep >= 3 and desc["where"] != "top", ["mutant", "mutant-" + o, "site:" + desc["site"], "parent:" + str(desc["parent"])], sample={"kind": "mutant", "mutation": desc, "text": text2[-700:]})
        # one violation from the arity / argument-kind / attribute-value catalogue
        name, tag, repl = rnd.choice(typed.LINE_VIOLATIONS)
        text3, spans3 = render(S, {tag: repl})
        desc = {"site": "catalogue:" + name, "where": "line", "parent": tag, "had": "-", "got": "-"}
        n_extra = repl.count("\n")
        span = spans3.get(tag)
        if span:
            span = (span[0], span[1] + n_extra)
        o = evaluate(stats, text3, False, desc, span)
        if o == "rejected":
            stats.classes["as-import-" + evaluate_as_import(stats, text, text3, desc)] += 1
        stats.case(text3, deep >= 3, ["catalogue", "catalogue-" + o, "rule:" + name], sample={"kind": "catalogue", "rule": name, "text": text3[-600:]})

    vlib.hyp_run(st.integers(0, 2**63), body, n, seed=seed * 1051 + idx)
    return stats


def run(ctx):
    ctx.rule = RULE
    ctx.assumptions = [
        "operator signatures as in doc/language-reference.md; `<`-family on two values of one enum is accepted upstream (pinned by a unit test) and is never generated nor used as a violation",
        "a virtual field may have any of the three types, so replacing a virtual field's whole value is not a violation",
        "magnitudes are kept small so that no other rule (64-bit gate, size checks) can reject a base module",
    ]
    ctx.stats = vlib.run_shards(shard, 16, seed=ctx.seed, n=ctx.pick(25, 600))
    for kf in ctx.known:
        rep = kf.get("reproducer")
        if kf.get("status") == "known" and rep:
            st_ = vlib.Stats()
            evaluate(st_, rep["text"], rep["expect"] == "accept", rep.get("mutation"), None)
            if not any(vlib.sig_matches(kf["matcher"], f["sig"]) for f in st_.failures):
                print("NOTE: known finding %s no longer reproduces from its literal reproducer" % kf["id"])
            ctx.stats.failures.extend(st_.failures)
    return ctx.finish(None)


def replay(ctx, data):
    c = data["case"]
    st_ = vlib.Stats()
    evaluate(st_, c["text"], c["expect"] == "accept", c.get("mutation"), None)
    for f in st_.failures:
        print("still failing:", f["sig"], str(f["detail"])[:500])
    return not st_.failures
