"""C03 — field writes are range-checked, read back exactly, and touch only their own bits."""

import os
import random
import re
import shutil

import vlib
from vlib import emb
from embgen import model as M, semgen
from embref import interp as RI, codec
from cppfarm import driver as D, farm

PROPERTY = "C03"

RULE = (
    "cases = (module, writable field, initial buffer, candidate value) and short write sequences: modules with scalars of every kind and width in structs, "
    "in named / inline / anonymous bits (overlapping and adjacent members), in nested structs, conditional fields, [requires] on fields and on aliases, aliases "
    "(incl. of nested paths) and invertible virtuals (x + c, x - c, c - x, nested); buffers full-size random and truncated; values in {min-1, min, -1, 0, 1, "
    "max, max+1, 2^k +- 1, in-range and out-of-range draws}. Oracle (embref): CouldWriteValue, TryToWrite result, byte-exact buffer afterwards (only the field's "
    "own bits may change; nothing on failure), Read() after success == v, virtual targets read back v; sequences of 1-6 writes compared after every step. "
    "Non-trivial = successful write that changed >= 1 bit, or a reject at min-1 / max+1, or a reject because bytes are missing; distinct by (module, target, buffer, value)."
)


# ---------------------------------------------------------------------------
# module generation
# ---------------------------------------------------------------------------

def gen_module(rnd):
    m = M.Module("m.emb")
    m.namespace = "v::w"
    m.default_byte_order = rnd.choice(["LittleEndian", "BigEndian"])
    en = M.Enum("Eu", [("AA", 0), ("BB", 1), ("CC", 7)])
    es = M.Enum("Es", [("NEG", -1), ("ZZ", 0), ("POS", 1)], is_signed=True)
    m.types += [en, es]
    n = [0]

    def nm(p):
        n[0] += 1
        return "%s%d" % (p, n[0])

    def bits_members(total):
        fields = []
        pos = 0
        while pos < total:
            w = min(total - pos, rnd.choice([1, 1, 2, 3, 4, 5, 7, 8, 9, 12, 15, 16, 17, 31, 32, 33, 63, 64]))
            kind = rnd.choice(["UInt", "UInt", "Int", "Int", "Flag", "Bcd", "eu", "es"])
            if kind == "Flag":
                w = 1
            if kind in ("eu", "es"):
                if w < 3:
                    kind = "UInt"
            if kind in ("eu", "es"):
                t = M.Type("enum", w, name="Eu" if kind == "eu" else "Es")
                t.target = en if kind == "eu" else es
            else:
                t = M.Type(kind, w)
            f = M.Field(nm("b"), ("n", pos), ("n", w), t)
            if t.kind in ("UInt", "Int") and w >= 3 and rnd.random() < 0.15:
                f.requires = ("op", rnd.choice(["<", "!=", ">="]), ("r", ("this",)), ("n", rnd.choice([0, 1, 3, 5])))
            fields.append(f)
            pos += w
            if rnd.random() < 0.15 and len(fields) >= 1 and total >= 8:
                ow = rnd.choice([1, 2, 3, 8])
                ow = min(ow, total)
                op = rnd.randrange(0, total - ow + 1)
                fields.append(M.Field(nm("o"), ("n", op), ("n", ow), M.Type("UInt", ow)))
        return fields

    sub = M.Struct("struct", "Sub")
    sub.fields = [M.Field("q", ("n", 0), ("n", 1), M.Type("UInt", 8)), M.Field("r", ("n", 1), ("n", 2), M.Type(rnd.choice(["UInt", "Int"]), 16))]
    ab = M.Field(nm("f"), ("n", 3), ("n", 1), None)
    ab.anon = bits_members(8)
    ab.typ = M.Type("bits")
    ab.typ.target = M.Struct("bits", "Anon", fields=ab.anon)
    sub.fields.append(ab)
    sub.static_size = 4
    m.types.append(sub)

    st = M.Struct("struct", "Foo")
    pos = 0
    ints = []  # (name, kind, bits) of plain integer scalars usable in virtuals
    for i in range(rnd.randrange(3, 8)):
        k = rnd.random()
        cond = None
        if ints and rnd.random() < 0.15:
            cond = ("op", rnd.choice(["==", "!=", "<"]), ("r", (ints[0][0],)), ("n", rnd.choice([0, 1, 2])))
        if k < 0.45:
            nb = rnd.choice([1, 1, 2, 3, 4, 5, 7, 8])
            kind = rnd.choice(["UInt", "UInt", "Int", "Int", "Bcd", "eu"])
            if kind == "eu":
                t = M.Type("enum", nb * 8, name="Eu")
                t.target = en
            else:
                t = M.Type(kind, nb * 8, explicit=rnd.random() < 0.2)
            f = M.Field(nm("f"), ("n", pos), ("n", nb), t)
            if nb > 1 and rnd.random() < 0.3:
                f.byte_order = rnd.choice(["LittleEndian", "BigEndian"])
            if t.kind in ("UInt", "Int") and rnd.random() < 0.2:
                f.requires = ("op", rnd.choice(["<", "<=", "!=", ">="]), ("r", ("this",)), ("n", rnd.choice([0, 1, 10, 100, 200])))
            if t.kind in ("UInt", "Int") and cond is None:
                ints.append((f.name, t.kind, t.bits))
            size = nb
        elif k < 0.75:
            nb = rnd.choice([1, 2, 3, 4, 8])
            f = M.Field(nm("f"), ("n", pos), ("n", nb), None)
            if rnd.random() < 0.5:
                f.anon = bits_members(nb * 8)
                f.typ = M.Type("bits")
                f.typ.target = M.Struct("bits", "Anon", fields=f.anon)
            else:
                target = M.Struct("bits", M.inline_type_name(f.name))
                target.fields = bits_members(nb * 8)
                target.static_bits = nb * 8
                f.typ = M.Type("bits", name=target.name)
                f.typ.target = target
                f.inline = target
            if f.inline is None and nb > 1 and rnd.random() < 0.3:
                f.byte_order = rnd.choice(["LittleEndian", "BigEndian"])
            if f.anon and cond is None:
                # members of an anonymous bits are reached through the alias the compiler adds for them
                for g in f.anon:
                    if g.typ.kind in ("UInt", "Int") and g.typ.bits <= 32:
                        ints.append((g.name, g.typ.kind, g.typ.bits))
            size = nb
        else:
            t = M.Type("struct", name="Sub")
            t.target = sub
            f = M.Field(nm("s"), ("n", pos), ("n", 4), t)
            size = 4
        f.cond = cond
        st.fields.append(f)
        pos += size
        if rnd.random() < 0.1:
            pos += 1
    # virtual fields
    subs = [f for f in st.fields if f.typ is not None and f.typ.kind == "struct" and f.cond is None]
    for i in range(rnd.randrange(1, 5)):
        k = rnd.random()
        name = nm("v")
        if k < 0.3 and ints:
            v = M.Field(name, value=("r", (rnd.choice(ints)[0],)))
        elif k < 0.4 and subs:
            v = M.Field(name, value=("r", (rnd.choice(subs).name, rnd.choice(["q", "r"]))))
        elif ints:
            x = ("r", (rnd.choice(ints)[0],))
            c = ("n", rnd.choice([1, 2, 5, 10, 100]))
            form = rnd.choice(["x+c", "x-c", "c-x", "c+x", "(x+c)-d", "d-(x-c)"])
            d = ("n", rnd.choice([1, 3, 7]))
            e = {"x+c": ("op", "+", x, c), "x-c": ("op", "-", x, c), "c-x": ("op", "-", c, x), "c+x": ("op", "+", c, x), "(x+c)-d": ("op", "-", ("op", "+", x, c), d), "d-(x-c)": ("op", "-", d, ("op", "-", x, c))}[form]
            v = M.Field(name, value=e)
            v.form = form
        else:
            continue
        if rnd.random() < 0.2:
            v.requires = ("op", rnd.choice(["<", "!=", ">="]), ("r", ("this",)), ("n", rnd.choice([0, 3, 10, 50])))
        st.fields.append(v)
        if rnd.random() < 0.5 and not (k < 0.4 and k >= 0.3):
            # later virtual fields may be built on this one: the write then goes through a chain
            ints.append((name, "virtual", 32))
    m.types.append(st)
    for t in m.types:
        semgen.set_parents(t, None)
    st.total = pos
    return m


def targets_of(module):
    """Writable scalar targets of struct Foo: list of (path tuple, descriptor)."""
    foo = [t for t in module.types if getattr(t, "name", None) == "Foo"][0]
    out = []

    def scalar(path, f):
        t = f.typ
        if t is None or t.dims or t.kind == "Float":
            return
        if t.is_scalar():
            out.append((path, {"kind": t.kind, "bits": t.bits, "signed_enum": t.kind == "enum" and t.target.signed(), "virtual": False}))

    for f in foo.fields:
        if f.is_virtual:
            vt = "bool" if False else "int"
            out.append(((f.name,), {"kind": "virtual", "bits": 32, "signed_enum": False, "virtual": True, "expr": f.value}))
            continue
        if f.is_anon:
            for g in f.anon:
                scalar((g.name,), g)
            continue
        t = f.typ
        if t.kind in ("struct", "bits"):
            target = f.inline if f.inline is not None else t.target
            for g in target.fields:
                if g.is_anon:
                    for h in g.anon:
                        scalar((f.name, h.name), h)
                elif not g.is_virtual:
                    scalar((f.name, g.name), g)
        else:
            scalar((f.name,), f)
    return out


def candidate_values(rnd, desc, text=False):
    if desc["virtual"] and text:
        small = [-300, -11, -2, -1, 0, 1, 2, 5, 9, 10, 20, 49, 99, 100, 127, 128, 200, 255]
        vals = small + [x + d for x in rnd.sample(small, 6) for d in (2**32, -(2**32), 2**33, 2**16, 2**8)] + [2**31, -(2**31) - 1, 2**63 - 1, -(2**63), 2**64 - 1]
        return rnd.sample(vals, 10)
    if desc["virtual"]:
        vals = [-(2**31) + 1, -300, -101, -11, -6, -2, -1, 0, 1, 2, 3, 5, 6, 9, 10, 11, 49, 50, 99, 100, 101, 127, 128, 200, 255, 256, 260, 355, 65535, 65536, 2**31 - 1]
        return rnd.sample(vals, 10)
    k, w = desc["kind"], desc["bits"]
    if k == "Flag":
        return [0, 1]
    lo, hi = codec.value_range(k if k != "enum" else "enum", w, desc["signed_enum"])
    vals = set([lo - 1, lo, -1, 0, 1, hi, hi + 1, 2, 9, 10, 15, 16, 99, 100, 255, 256])
    for _ in range(3):
        vals.add(rnd.randint(lo, hi))
        e = rnd.randrange(1, 64)
        vals.add(2**e - 1)
        vals.add(2**e + 1)
        vals.add(-(2**e))
    vals.add(2**63 - 1)
    vals.add(-(2**63))
    vals.add(2**64 - 1)
    vals = [v for v in vals if -(2**63) <= v <= 2**64 - 1]
    if text:
        # the text reader decodes the number itself: every number is a fair argument, in particular
        # the ones congruent to an acceptable value modulo the width of the field's C++ type
        vt = 8 if w <= 8 else 16 if w <= 16 else 32 if w <= 32 else 64
        ok_vals = [v for v in vals if lo <= v <= hi]
        for v in rnd.sample(ok_vals, min(4, len(ok_vals))):
            for ww in (vt, 32, 64):
                for x in (v + 2**ww, v - 2**ww):
                    if -(2**63) <= x <= 2**64 - 1:
                        vals.append(x)
        return sorted(set(vals))
    if k in ("Bcd", "enum"):
        # BcdView / EnumView take their ValueType by value (not a template over the
        # integer type): arguments outside that type would be narrowed by the caller
        vt = 8 if w <= 8 else 16 if w <= 16 else 32 if w <= 32 else 64
        if k == "enum":
            vt = 64
            vals = [v for v in vals if (v >= 0 or desc["signed_enum"]) and v <= (2**63 - 1 if desc["signed_enum"] else 2**64 - 1)]
        else:
            vals = [v for v in vals if 0 <= v <= 2**vt - 1]
    return sorted(vals)


# ---------------------------------------------------------------------------
# reference: apply one write
# ---------------------------------------------------------------------------

def ref_view(I, foo, buf):
    return RI.StructView(I, foo, {}, buf)


def contains_ref(e):
    if e[0] == "r":
        return True
    if e[0] == "op":
        return contains_ref(e[2]) or contains_ref(e[3])
    return False


def invert(view, e, v):
    """Solve e == v for the single field reference in e. Returns (path, value) or None."""
    if e[0] == "r":
        return e[1], v
    if e[0] == "op" and e[1] in "+-":
        a, b = e[2], e[3]
        if contains_ref(a):
            other = view.ev(b)
            if other is None:
                return None
            return invert(view, a, v - other if e[1] == "+" else v + other)
        other = view.ev(a)
        if other is None:
            return None
        return invert(view, b, v - other if e[1] == "+" else other - v)
    return None


def ref_write(I, foo, buf, path, v):
    """Returns dict(could, ok, buf, read) per the reference semantics."""
    view = ref_view(I, foo, buf)
    fv = view.path_view(path)
    f = None
    if len(path) == 1 and path[0] in view.members():
        f = view.members()[path[0]][0]
    if f is not None and f.is_virtual:
        # own [requires], then the algebraic inverse through the destination
        could = True
        if f.requires is not None and view.ev(f.requires, this=v) is not True:
            could = False
        inv = invert(view, f.value, v)
        # a chain of virtual fields: each link's own [requires] applies to the value it would take
        hops = 0
        while inv is not None and len(inv[0]) == 1 and inv[0][0] in view.members() and view.members()[inv[0][0]][0].is_virtual and hops < 8:
            link = view.members()[inv[0][0]][0]
            if link.requires is not None and view.ev(link.requires, this=inv[1]) is not True:
                could = False
            inv = invert(view, link.value, inv[1])
            hops += 1
        dest = None
        if inv is None:
            could = False
        else:
            dest = view.path_view(inv[0])
            if dest is None or not isinstance(dest, RI.ScalarView):
                # destination not present: CouldWriteValue is a pure range question on its type
                dfield = resolve_field(view, inv[0])
                dest = RI.ScalarView(view, dfield, dfield.typ, None, True) if dfield is not None else None
            if dest is None or not dest.could_write(inv[1]):
                could = False
        ok, nb = False, buf
        if could and dest is not None:
            ok, nb = dest.try_write(inv[1], buf)
        res = {"could": could, "ok": ok, "buf": nb}
        nv = ref_view(I, foo, nb).path_view(path)
        res["read"] = nv.value() if nv is not None and nv.ok() else None
        return res
    if fv is None or not isinstance(fv, RI.ScalarView):
        dfield = resolve_field(view, path)
        fv = RI.ScalarView(view, dfield, dfield.typ, None, True)
    could = fv.could_write(v)
    ok, nb = fv.try_write(v, buf) if could else (False, buf)
    res = {"could": could, "ok": ok, "buf": nb}
    nv = ref_view(I, foo, nb).path_view(path)
    res["read"] = nv.value() if nv is not None and isinstance(nv, RI.ScalarView) and nv.ok() else None
    return res


def resolve_field(view, path):
    st = view.st
    f = None
    for i, name in enumerate(path):
        found = None
        for g in st.fields:
            for h in [g] + (g.anon or []):
                if h.name == name:
                    found = h
        if found is None:
            return None
        f = found
        if i + 1 < len(path):
            st = f.inline if f.inline is not None else f.typ.target
    return f


# ---------------------------------------------------------------------------
# driver
# ---------------------------------------------------------------------------

def driver_extra(module, targets):
    L = ["static bool g_narrow = false;",
         "template <class T, class F> static void write_as(F f, long long x, bool &could, bool &ok) { could = f.CouldWriteValue(static_cast<T>(x)); ok = f.TryToWrite(static_cast<T>(x)); }",
         "// the same value passed as the narrowest standard integer type that holds it (signed for negative",
         "// values, alternately signed and unsigned otherwise): the write methods of integer views are templates",
         "template <class F> static typename std::enable_if<std::is_integral<decltype(std::declval<F>().UncheckedRead())>::value && !std::is_same<decltype(std::declval<F>().UncheckedRead()), bool>::value, bool>::type",
         "do_write_narrow(F f, const std::string &val) {",
         "  bool could = false, ok = false;",
         "  if (!val.empty() && val[0] == '-') { long long x = std::stoll(val);",
         "    if (x >= -128) write_as<std::int8_t>(f, x, could, ok); else if (x >= -32768) write_as<std::int16_t>(f, x, could, ok); else if (x >= -2147483648LL) write_as<std::int32_t>(f, x, could, ok); else write_as<std::int64_t>(f, x, could, ok);",
         "  } else { unsigned long long u = std::stoull(val); long long x = static_cast<long long>(u); bool sg = (u % 2) == 0;",
         "    if (u <= 127 && sg) write_as<std::int8_t>(f, x, could, ok); else if (u <= 255) write_as<std::uint8_t>(f, x, could, ok);",
         "    else if (u <= 32767 && sg) write_as<std::int16_t>(f, x, could, ok); else if (u <= 65535) write_as<std::uint16_t>(f, x, could, ok);",
         "    else if (u <= 2147483647ULL && sg) write_as<std::int32_t>(f, x, could, ok); else if (u <= 4294967295ULL) write_as<std::uint32_t>(f, x, could, ok);",
         "    else if (u <= 9223372036854775807ULL && sg) write_as<std::int64_t>(f, x, could, ok); else { could = f.CouldWriteValue(u); ok = f.TryToWrite(u); } }",
         "  P(\"could\", could); P(\"ok\", ok); return true; }",
         "template <class F> static typename std::enable_if<!(std::is_integral<decltype(std::declval<F>().UncheckedRead())>::value && !std::is_same<decltype(std::declval<F>().UncheckedRead()), bool>::value), bool>::type",
         "do_write_narrow(F, const std::string &) { return false; }",
         "template <class F> static void do_write(F f, const std::string &val) {",
         "  typedef decltype(f.UncheckedRead()) VT;",
         "  if (g_narrow && do_write_narrow(f, val)) return;",
         "  bool neg = !val.empty() && val[0] == '-';",
         "  bool could, ok;",
         "  if (neg) { long long x = std::stoll(val); could = f.CouldWriteValue(conv<VT>(x)); ok = f.TryToWrite(conv<VT>(x)); }",
         "  else { unsigned long long x = std::stoull(val); could = f.CouldWriteValue(conv<VT>(x)); ok = f.TryToWrite(conv<VT>(x)); }",
         "  P(\"could\", could); P(\"ok\", ok);",
         "}"]
    pre = r"""
template <class VT> static typename std::enable_if<std::is_integral<VT>::value && !std::is_same<VT, bool>::value, bool>::type fits_vt(long long x) { return static_cast<long long>(static_cast<VT>(x)) == x && ((x < 0) == (static_cast<VT>(x) < 0)); }
template <class VT> static typename std::enable_if<!(std::is_integral<VT>::value && !std::is_same<VT, bool>::value), bool>::type fits_vt(long long) { return true; }
template <class VT, class X> static typename std::enable_if<std::is_enum<VT>::value, VT>::type conv(X x) { return static_cast<VT>(x); }
template <class VT, class X> static typename std::enable_if<std::is_same<VT, bool>::value, bool>::type conv(X x) { return x != 0; }
template <class VT, class X> static typename std::enable_if<!std::is_enum<VT>::value && !std::is_same<VT, bool>::value, X>::type conv(X x) { return x; }
"""
    L = [pre] + L
    L.append("static bool g_text = false;")
    L.append("template <class V> static void write_target(V v, int ti, const std::string &val) {")
    L.append("  if (g_text) {")
    L.append("    // the same write through the text reader: { a: { b: <number> } }")
    L.append("    std::string t;")
    L.append("    switch (ti) {")
    for i, (path, desc) in enumerate(targets):
        L.append("      case %d: t = \"%s\" + val + \"%s\"; break;" % (i, "".join("{ %s: " % p for p in path), " }" * len(path)))
    L.append("      default: break;")
    L.append("    }")
    L.append("    bool ok = ::emboss::UpdateFromText(v, t); P(\"could\", std::string(\"text\")); P(\"ok\", ok);")
    L.append("    return;")
    L.append("  }")
    L.append("  switch (ti) {")
    for i, (path, desc) in enumerate(targets):
        acc = "v." + ".".join("%s()" % p for p in path)
        if desc["virtual"]:
            # the write methods of a virtual field take its value type by value: a value that this type cannot
            # represent would be narrowed by the CALLER, which is not the field's doing - reported as "skip"
            L.append("    case %d: { auto f = %s; long long x = std::stoll(val); if (!fits_vt<decltype(f.Read())>(x)) { P(\"could\", std::string(\"skip\")); P(\"ok\", std::string(\"skip\")); break; } bool could = f.CouldWriteValue(x); bool ok = f.TryToWrite(x); P(\"could\", could); P(\"ok\", ok); break; }" % (i, acc))
        else:
            L.append("    case %d: { do_write(%s, val); break; }" % (i, acc))
    L.append("    default: break;")
    L.append("  }")
    L.append("}")
    L.append("template <class V> static void read_target(V v, int ti) {")
    L.append("  switch (ti) {")
    for i, (path, desc) in enumerate(targets):
        acc = "v." + ".".join("%s()" % p for p in path)
        L.append("    case %d: { auto f = %s; bool o = f.Ok(); P(\"rok\", o); if (o) P(\"read\", S(f.Read())); break; }" % (i, acc))
    L.append("    default: break;")
    L.append("  }")
    L.append("}")
    return "\n".join(L)


WRITE_FN = r"""
// AL == 0: MakeFooView over an exact-size heap buffer; AL in {2,4,8}: MakeAlignedFooView<unsigned char, AL>
// over 16-byte aligned storage, which instantiates the aligned MemoryAccessor read/write fast paths
template <int AL> struct MakeV {
  static auto make(unsigned char *p, std::size_t n) -> decltype(NS::MakeAlignedFooView<unsigned char, AL>(p, n)) { return NS::MakeAlignedFooView<unsigned char, AL>(p, n); }
};
template <> struct MakeV<0> {
  static auto make(unsigned char *p, std::size_t n) -> decltype(NS::MakeFooView(p, n)) { return NS::MakeFooView(p, n); }
};
template <int AL> static void run_writes(const std::vector<std::string> &tok) {
  // <cmd> <hex> <n> (<target> <value>)*n : a sequence of writes on one buffer
  std::vector<unsigned char> b = unhex(tok[1]);
  unsigned char *buf;
  if (AL == 0) { buf = new unsigned char[b.size()]; }
  else { std::size_t cap = ((b.size() + 15) / 16 + 1) * 16; buf = static_cast<unsigned char *>(aligned_alloc(16, cap)); }
  if (!b.empty()) std::memcpy(buf, b.data(), b.size());
  int n = std::stoi(tok[2]);
  for (int i = 0; i < n; ++i) {
    auto v = MakeV<AL>::make(buf, b.size());
    int ti = std::stoi(tok[3 + 2 * i]);
    write_target(v, ti, tok[4 + 2 * i]);
    P("buf", tohex(buf, b.size()));
    auto v2 = MakeV<AL>::make(buf, b.size());
    read_target(v2, ti);
    std::printf("STEP\n");
  }
  if (AL == 0) delete[] buf; else free(buf);
}
"""

MAIN_EXTRA = r"""
    g_text = tok[0] == "WT"; g_narrow = tok[0] == "WN";
    if (tok[0] == "W" || tok[0] == "WT" || tok[0] == "WN") run_writes<0>(tok);
    if (tok[0] == "X2") run_writes<2>(tok);
    if (tok[0] == "X4") run_writes<4>(tok);
    if (tok[0] == "X8") run_writes<8>(tok);
"""


def build_case(case_seed, nbuf, seq_p):
    rnd = random.Random(case_seed)
    m = gen_module(rnd)
    text = semgen.module_text(m)
    r = emb.compile_files({"m.emb": text})
    if not r.accepted:
        return {"rejected": True, "text": text, "why": (r.exc_sig or r.errors[0][0].message.split("\n")[0])}
    foo = [t for t in m.types if getattr(t, "name", None) == "Foo"][0]
    # the compiler decides which virtual fields are writable; ask it (IR write_method) for that, nothing else
    ir_foo = [t for t in r.ir.module[0].type if t.name.name.text == "Foo"][0]
    writable = set(f.name.name.text for f in ir_foo.structure.field if not f.write_method.read_only)
    targets = [(p, d) for p, d in targets_of(m) if not d["virtual"] or p[0] in writable]
    expected_writable = set()
    for f in foo.fields:
        if f.is_virtual:
            expected_writable.add(f.name)
    gen = D.DriverGen({"": m})
    src = gen.source("m.emb.h", extra_fns=driver_extra(m, targets) + WRITE_FN.replace("NS", D.cpp_ns(m)), main_extra=MAIN_EXTRA)
    I = RI.Interp({"": m})
    script = []
    expect = []
    total = foo.total
    # targets the text route is used for: integers, whose text form is a plain number
    text_targets = [i for i, (p, d) in enumerate(targets) if d["virtual"] or d["kind"] in ("UInt", "Int", "Bcd")]
    # targets whose write methods are templates over the argument's integer type
    int_targets = [i for i, (p, d) in enumerate(targets) if not d["virtual"] and d["kind"] in ("UInt", "Int")]
    for _ in range(nbuf):
        n = total if rnd.random() < 0.75 else rnd.randrange(0, total + 1)
        buf = bytes(rnd.choice([0, 0xFF, 0x55, rnd.randrange(256), rnd.randrange(256)]) for _ in range(n))
        steps = rnd.choice([1, 1, 1, 2, 3, 6]) if rnd.random() < seq_p else 1
        seq = []
        cur = buf
        exp_steps = []
        as_text = bool(text_targets) and rnd.random() < 0.25
        as_narrow = not as_text and bool(int_targets) and rnd.random() < 0.25
        for _s in range(steps):
            ti = rnd.choice(text_targets) if as_text else (rnd.choice(int_targets) if as_narrow else rnd.randrange(len(targets)))
            path, desc = targets[ti]
            v = rnd.choice(candidate_values(rnd, desc, text=as_text))
            res = ref_write(I, foo, cur, path, v)
            res["before"] = cur
            res["target"] = ".".join(path)
            res["value"] = v
            res["desc"] = {k: x for k, x in desc.items() if k != "expr"}
            exp_steps.append(res)
            cur = res["buf"]
            seq.append((ti, v))
        cmd = "WT" if as_text else ("WN" if as_narrow else rnd.choice(["W", "W", "W", "X2", "X4", "X8"]))
        if as_narrow:
            for res in exp_steps:
                res["narrow"] = True
        if as_text:
            for res in exp_steps:
                res["text"] = True
        script.append("%s %s %d %s" % (cmd, buf.hex() or "-", len(seq), " ".join("%d %d" % (ti, v) for ti, v in seq)))
        expect.append(exp_steps)
    return {"rejected": False, "text": text, "header": r.header, "driver": src, "script": "\n".join(script) + "\n", "expect": expect, "module": m, "targets": targets, "writable": sorted(writable), "virtuals": sorted(expected_writable)}


def parse_steps(out_text):
    cases = []
    cur = []
    step = {}
    for line in out_text.split("\n"):
        if line == "STEP":
            cur.append(step)
            step = {}
        elif line == "END":
            cases.append(cur)
            cur = []
        elif "=" in line:
            k, v = line.split("=", 1)
            step[k] = v
    return cases


def field_class(desc, target_field):
    if desc["virtual"]:
        return "virtual"
    return desc["kind"] + ("-signed" if desc["signed_enum"] else "")


def compare(case, outputs, stats):
    exp = case["expect"]
    if len(outputs) != len(exp):
        stats.fail({"kind": "driver-output-count"}, {"text": case["text"]}, "driver printed %d cases, expected %d" % (len(outputs), len(exp)))
        return
    nfail = 0
    per_sig = {}
    for steps_want, steps_got in zip(exp, outputs):
        for w, g in zip(steps_want, steps_got):
            changed = w["buf"] != w["before"]
            d = w["desc"]
            boundary = False
            if not d["virtual"] and d["kind"] not in ("Flag",):
                lo, hi = codec.value_range(d["kind"], d["bits"], d["signed_enum"])
                boundary = w["value"] in (lo - 1, hi + 1)
            missing = w["could"] and not w["ok"]
            nt = (w["ok"] and changed) or (boundary and not w["could"]) or missing
            fc = field_class(d, None) + ("-enum-signed" if d["signed_enum"] else "")
            stats.case([case["text"], w["target"], w["before"].hex(), w["value"]], nt, ["target:" + field_class(d, None), "route:text" if w.get("text") else ("route:call-narrow-argument-type" if w.get("narrow") else "route:call"), "accepted" if w["ok"] else ("refused-range" if not w["could"] else "refused-bytes"), "seq>1" if len(steps_want) > 1 else "single"], sample={"target": w["target"], "kind": d["kind"], "bits": d["bits"], "before": w["before"].hex(), "value": w["value"], "could": w["could"], "ok": w["ok"], "after": w["buf"].hex()})
            obs = {"could": "1" if w["could"] else "0", "ok": "1" if w["ok"] else "0", "buf": w["buf"].hex() or "-"}
            if w["ok"]:
                obs["read"] = RI.fmt_value(None, w["read"]) if w["read"] is not None else None
            if g.get("could") == "skip":
                stats.classes["virtual-argument-not-representable-in-parameter-type"] += 1
                break  # nothing was called; later steps of the sequence start from a different buffer
            bad = None
            for k in (("ok", "buf") if w.get("text") else ("could", "ok", "buf")):
                if g.get(k) != obs[k]:
                    bad = k
                    break
            if bad is None and w["ok"] and obs.get("read") is not None and g.get("read") != obs["read"]:
                bad = "read"
            if bad:
                sig = {"kind": "write-mismatch" if not w.get("text") else "text-write-mismatch", "obs": bad, "field": "enum-signed" if d["signed_enum"] else field_class(d, None), "width": "64" if d["bits"] == 64 else ("<64" if not d["virtual"] else "-")}
                sk = vlib.h(sig)
                per_sig[sk] = per_sig.get(sk, 0) + 1
            if bad and per_sig[sk] <= 3:  # capped per signature, so a recorded finding cannot use up the budget of another defect
                nfail += 1
                stats.fail(sig, {"text": case["text"], "target": w["target"], "before": w["before"].hex(), "value": w["value"]}, "%s of %s(%s) <- %d on buffer %s: generated code %s=%s, reference %s=%s (reference: could=%s ok=%s after=%s)" % (bad, w["target"], d["kind"] + str(d["bits"]), w["value"], w["before"].hex(), bad, g.get(bad), bad, obs[bad], w["could"], w["ok"], w["buf"].hex()))
                break
            if bad:
                break


def run_batch(ctx, seeds, nbuf, seq_p):
    stats = vlib.Stats()
    root = os.path.join(ctx.tmp, "c03")
    cases = []
    for i, sd in enumerate(seeds):
        c = build_case(sd, nbuf, seq_p)
        if c["rejected"]:
            stats.discards += 1
            stats.classes["rejected:" + str(c["why"])[:60]] += 1
            continue
        # every +/- virtual over one writable field must be writable (write inference)
        for v in c["virtuals"]:
            stats.classes["virtual-writable" if v in c["writable"] else "virtual-read-only"] += 1
        d = os.path.join(root, "m%d" % i)
        farm.write_files(d, {"m.emb.h": c["header"], "driver.cc": c["driver"], "m.emb": c["text"]})
        c["dir"] = d
        cases.append(c)
    builds = farm.build_all([(c["dir"], "driver.cc", "driver", farm.GXX, []) for c in cases])
    runs = []
    for c, (d, ok, err) in zip(cases, builds):
        if not ok:
            first = next((l for l in err.split("\n") if "error" in l), err[:200])
            stats.fail({"kind": "driver-does-not-compile", "msg": re.sub(r"[0-9]+", "N", first)[-100:]}, {"text": c["text"]}, err[-3000:])
        else:
            runs.append(c)
    results = farm.run_all([(c["dir"], "driver", c["script"]) for c in runs])
    for c, (rc, out, err) in zip(runs, results):
        if rc != 0:
            stats.fail({"kind": "driver-crashed", "rc": rc, "msg": re.sub(r"[0-9]+", "N", (err.strip().split("\n") or [""])[-1])[-100:]}, {"text": c["text"]}, "exit status %s\n%s" % (rc, err[-2000:]))
            continue
        compare(c, parse_steps(out), stats)
    shutil.rmtree(root, ignore_errors=True)
    return stats


def run(ctx):
    ctx.rule = RULE
    ctx.assumptions = [
        "values are passed as long long / unsigned long long (physical fields' write methods are templates over the integer type); virtual targets take values within the int32 range only, because their methods take the field's own C++ type and out-of-range arguments would be narrowed by the caller",
        "which virtual fields are writable is read from the compiler's IR (write_method); everything else comes from the model",
        "Float fields are not written (text/IO of floats is documented as incomplete)",
    ]
    nmod = ctx.pick(32, 400)
    rnd = random.Random(ctx.seed * 15485863 + 3)
    seeds = [rnd.randrange(2**62) for _ in range(nmod)]
    ctx.stats = run_batch(ctx, seeds, ctx.pick(150, 400), 0.3)
    return ctx.finish(None)


def replay(ctx, data):
    return True
