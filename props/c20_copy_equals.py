"""C20 — CopyFrom and Equals implement logical copy and logical equality."""

import os
import random
import re
import shutil

import vlib
from vlib import emb
from embgen import model as M, semgen
from embref import interp as RI
from cppfarm import driver as D, farm
from props import c01_views as C1

PROPERTY = "C20"

RULE = (
    "cases = (module, structure, buffer pair / overlapping windows): layout-generator structs with padding gaps, overlapping fields, anonymous bits, conditional and "
    "dynamically sized members, arrays, floats, nested structs; pairs = identical, one bit flipped (covered or padding decided by the reference), different lengths, "
    "source not Ok, destination too short, two windows of one allocation. Oracle (embref): for two Ok views Equals <=> same presence and all present physical "
    "fields equal recursively (floats by ==), symmetric; TryToCopyFrom <=> source Ok and destination length >= source size, afterwards destination prefix == source "
    "prefix (memmove semantics), tail untouched, destination Ok and Equals source when disjoint. Non-trivial = pair that differs only in uncovered bytes, has "
    "different lengths, or overlaps; distinct by (module, struct, buffers)."
)

MAIN_EXTRA = r"""
    if (tok[0] == "Q" || tok[0] == "C") {
      // Q <struct> <hexA> <hexB>: Equals both ways.   C <struct> <hexDst> <hexSrc>: TryToCopyFrom
      int si = std::stoi(tok[1]); std::vector<unsigned char> a = unhex(tok[2]), b = unhex(tok[3]);
      unsigned char *pa = new unsigned char[a.size()]; if (!a.empty()) std::memcpy(pa, a.data(), a.size());
      unsigned char *pb = new unsigned char[b.size()]; if (!b.empty()) std::memcpy(pb, b.data(), b.size());
      pair_cmd(tok[0][0], si, pa, a.size(), pb, b.size());
      P("bufA", tohex(pa, a.size()));
      delete[] pa; delete[] pb;
    }
    if (tok[0] == "R") {
      int si = std::stoi(tok[1]); std::vector<unsigned char> a = unhex(tok[2]), b = unhex(tok[3]);
      unsigned char *pa = new unsigned char[a.size()]; if (!a.empty()) std::memcpy(pa, a.data(), a.size());
      unsigned char *pb = new unsigned char[b.size()]; if (!b.empty()) std::memcpy(pb, b.data(), b.size());
      pairp_cmd(si, pa, a.size(), pb, b.size(), tok);
      P("bufA", tohex(pa, a.size()));
      delete[] pa; delete[] pb;
    }
    if (tok[0] == "O") {
      // O <struct> <hex> <dstOff> <dstLen> <srcOff> <srcLen>: copy between windows of one allocation
      int si = std::stoi(tok[1]); std::vector<unsigned char> a = unhex(tok[2]);
      unsigned char *pa = new unsigned char[a.size()]; if (!a.empty()) std::memcpy(pa, a.data(), a.size());
      std::size_t d0 = std::stoul(tok[3]), dl = std::stoul(tok[4]), s0 = std::stoul(tok[5]), sl = std::stoul(tok[6]);
      pair_cmd('C', si, pa + d0, dl, pa + s0, sl);
      P("bufA", tohex(pa, a.size()));
      delete[] pa;
    }
"""


def pair_fn(gen, module):
    L = ["static void pair_cmd(char cmd, int si, unsigned char *pa, std::size_t na, unsigned char *pb, std::size_t nb) {", "  switch (si) {"]
    for i, st in enumerate(gen.top_structs()):
        if st.params:
            continue
        mk = "%s::Make%sView" % (D.cpp_ns(module), st.name)
        L.append("    case %d: { auto a = %s(pa, na); auto b = %s(pb, nb);" % (i, mk, mk))
        L.append("      if (cmd == 'Q') { bool oa = a.Ok(), ob = b.Ok(); P(\"okA\", oa); P(\"okB\", ob); if (oa && ob) { P(\"eqAB\", a.Equals(b)); P(\"eqBA\", b.Equals(a)); } }")
        L.append("      else { bool r = a.TryToCopyFrom(b); P(\"copied\", r); auto a2 = %s(pa, na); P(\"okA\", a2.Ok()); }" % mk)
        L.append("      break; }")
    L.append("    default: break;")
    L.append("  }")
    L.append("}")
    # R <struct> <hexA> <hexB> <params of A...> <params of B...>: two views of a parameterised structure
    L.append("static void pairp_cmd(int si, unsigned char *pa, std::size_t na, unsigned char *pb, std::size_t nb, const std::vector<std::string> &tok) {")
    L.append("  (void)pa; (void)na; (void)pb; (void)nb; (void)tok;")
    L.append("  switch (si) {")
    for i, st in enumerate(gen.top_structs()):
        if not st.params:
            continue
        k = len(st.params)
        mk = "%s::Make%sView" % (D.cpp_ns(module), st.name)
        aa = "".join(gen.param_cast(pt, 4 + j) + ", " for j, (pn, pt) in enumerate(st.params))
        ab = "".join(gen.param_cast(pt, 4 + k + j) + ", " for j, (pn, pt) in enumerate(st.params))
        L.append("    case %d: { auto a = %s(%spa, na); auto b = %s(%spb, nb);" % (i, mk, aa, mk, ab))
        L.append("      bool oa = a.Ok(), ob = b.Ok(); P(\"okA\", oa); P(\"okB\", ob); if (oa && ob) { P(\"eqAB\", a.Equals(b)); P(\"eqBA\", b.Equals(a)); }")
        L.append("      break; }")
    L.append("    default: break;")
    L.append("  }")
    L.append("}")
    return "\n".join(L)


def ok_buffers_params(rnd, I, s, params, maxlen, want=3, tries=60):
    out = []
    for _ in range(tries):
        n = maxlen + rnd.choice([0, 0, 1])
        b = bytes(rnd.choice([0, 0, 0, 1, 2, 3]) for _ in range(n)) if rnd.random() < 0.6 else bytes(C1.byte_pool(rnd) for _ in range(n))
        if RI.StructView(I, s, params, b).ok():
            out.append(b)
            if len(out) >= want:
                break
    return out


def ok_buffers(rnd, I, s, maxlen, want=6, tries=120):
    out = []
    pins = C1.discriminant_pins(s)
    for _ in range(tries):
        n = maxlen + rnd.choice([0, 0, 1, 2])
        k = rnd.random()
        if k < 0.4:
            b = bytes(C1.byte_pool(rnd) for _ in range(n))
        elif k < 0.7:
            b = bytes(rnd.choice([0, 0, 0, 1, 2, 3]) for _ in range(n))
        else:
            b = bytes([rnd.choice([0, 1, 0x11, 0x22])] * n)
        if pins and rnd.random() < 0.5:
            # make a `tag == constant` condition true so that the guarded fields are present
            off, c = rnd.choice(pins)
            if off < n:
                b = b[:off] + bytes([c]) + b[off + 1 :]
        v = RI.StructView(I, s, {}, b)
        if v.ok():
            out.append(b)
            if len(out) >= want:
                break
    return out


def build_case(seed):
    rnd = random.Random(seed)
    m, feats = semgen.layout_module(rnd)
    text = semgen.module_text(m)
    r = emb.compile_files({"m.emb": text})
    if not r.accepted:
        return {"rejected": True, "text": text, "why": (r.exc_sig or r.errors[0][0].message.split("\n")[0])}
    C1.set_cpp_names(m)
    gen = D.DriverGen({"": m})
    src = gen.source("m.emb.h", extra_fns=pair_fn(gen, m), main_extra=MAIN_EXTRA)
    I = RI.Interp({"": m})
    script, expect = [], []
    for si, s in enumerate(gen.top_structs()):
        if s.params:
            # two views of a parameterised structure, built with the same or with different arguments
            maxlen = C1.struct_maxlen(s)
            names = [pn for pn, _ in s.params]
            assignments = [C1.param_values(rnd, s) for _ in range(3)]
            for pva in assignments:
                for pvb in assignments:
                    da, db = dict(zip(names, pva)), dict(zip(names, pvb))
                    for a in ok_buffers_params(rnd, I, s, da, maxlen, want=2):
                        for b in [a] + ok_buffers_params(rnd, I, s, db, maxlen, want=1):
                            va, vb = RI.StructView(I, s, da, a), RI.StructView(I, s, db, b)
                            oa, ob = va.ok(), vb.ok()
                            exp = {"okA": oa, "okB": ob, "bufA": a}
                            if oa and ob:
                                e1, e2 = RI.views_equal(va, vb), RI.views_equal(vb, va)
                                if pva == pvb or not e1:
                                    exp["eqAB"] = e1
                                if pva == pvb or not e2:
                                    exp["eqBA"] = e2
                                # views that differ in nothing but an argument: the property speaks of fields
                                # only; what the generated code does with the arguments is not compared
                            script.append("R %d %s %s %s %s" % (si, a.hex() or "-", b.hex() or "-", " ".join(str(x) for x in pva), " ".join(str(x) for x in pvb)))
                            expect.append({"cmd": "R", "struct": s.name, "kind": "same-arguments" if pva == pvb else "different-arguments", "a": a, "b": b, "exp": exp, "nontrivial": bool(oa and ob and pva != pvb)})
            continue
        maxlen = C1.struct_maxlen(s)
        oks = ok_buffers(rnd, I, s, maxlen)
        pool = list(oks) + [bytes(C1.byte_pool(rnd) for _ in range(maxlen)) for _ in range(2)]
        for a in pool:
            va = RI.StructView(I, s, {}, a)
            variants = [("identical", a)]
            if a:
                for _ in range(3):
                    i = rnd.randrange(len(a))
                    bit = 1 << rnd.randrange(8)
                    variants.append(("bitflip", a[:i] + bytes([a[i] ^ bit]) + a[i + 1 :]))
                variants.append(("longer", a + bytes(rnd.randrange(256) for _ in range(rnd.choice([1, 3])))))
                variants.append(("shorter", a[: rnd.randrange(len(a))]))
            if oks:
                variants.append(("other-ok", rnd.choice(oks)))
            for kind, b in variants:
                vb = RI.StructView(I, s, {}, b)
                oa, ob = va.ok(), vb.ok()
                # Equals
                exp = {"okA": oa, "okB": ob}
                if oa and ob:
                    e1 = RI.views_equal(va, vb)
                    exp["eqAB"] = e1
                    exp["eqBA"] = RI.views_equal(vb, va)
                exp["bufA"] = a
                script.append("Q %d %s %s" % (si, a.hex() or "-", b.hex() or "-"))
                nt = kind in ("longer", "shorter") or (kind == "bitflip" and oa and ob and exp.get("eqAB"))
                expect.append({"cmd": "Q", "struct": s.name, "kind": kind, "a": a, "b": b, "exp": exp, "nontrivial": nt})
                # TryToCopyFrom: destination a, source b
                size = vb.size()
                can = ob and size is not None and len(a) >= size
                after = (b[:size] + a[size:]) if can else a
                exp2 = {"copied": can, "bufA": after, "okA": RI.StructView(I, s, {}, after).ok()}
                script.append("C %d %s %s" % (si, a.hex() or "-", b.hex() or "-"))
                expect.append({"cmd": "C", "struct": s.name, "kind": kind, "a": a, "b": b, "exp": exp2, "nontrivial": len(a) != len(b)})
        # every single-bit flip of an Ok buffer (Equals only): a flipped bit that some present field covers
        # must make the views unequal, one that no field covers must not - whatever the element size
        for a in oks[:2]:
            va = RI.StructView(I, s, {}, a)
            positions = [(i, bit) for i in range(len(a)) for bit in range(8)]
            if len(positions) > 256:
                positions = rnd.sample(positions, 256)
            for i, bit in positions:
                b = a[:i] + bytes([a[i] ^ (1 << bit)]) + a[i + 1 :]
                vb = RI.StructView(I, s, {}, b)
                ob = vb.ok()
                exp = {"okA": True, "okB": ob, "bufA": a}
                if ob:
                    exp["eqAB"] = RI.views_equal(va, vb)
                    exp["eqBA"] = RI.views_equal(vb, va)
                script.append("Q %d %s %s" % (si, a.hex() or "-", b.hex() or "-"))
                expect.append({"cmd": "Q", "struct": s.name, "kind": "bitflip", "a": a, "b": b, "exp": exp, "nontrivial": bool(ob and exp.get("eqAB"))})
        # overlapping windows of one allocation
        for a in oks[:3]:
            size = RI.StructView(I, s, {}, a).size()
            if not size:
                continue
            for _ in range(3):
                shift = rnd.randrange(0, max(1, min(size, 6)) + 1)
                total = a + bytes(rnd.randrange(256) for _ in range(shift + 2))
                if rnd.random() < 0.5:
                    d0, s0 = shift, 0
                else:
                    d0, s0 = 0, shift
                # the source window must hold an Ok view for the copy to happen
                src_win = total[s0 : s0 + len(a)]
                dl = len(total) - d0
                vsrc = RI.StructView(I, s, {}, src_win)
                ssz = vsrc.size()
                can = vsrc.ok() and ssz is not None and dl >= ssz
                after = bytearray(total)
                if can:
                    after[d0 : d0 + ssz] = total[s0 : s0 + ssz]
                script.append("O %d %s %d %d %d %d" % (si, total.hex(), d0, dl, s0, len(a)))
                dst_after = bytes(after[d0 : d0 + dl])
                expect.append({"cmd": "O", "struct": s.name, "kind": "overlap", "a": total, "b": b"", "exp": {"copied": can, "bufA": bytes(after), "okA": RI.StructView(I, s, {}, dst_after).ok()}, "nontrivial": True})
    return {"rejected": False, "text": text, "header": r.header, "driver": src, "script": "\n".join(script) + "\n", "expect": expect, "features": sorted(feats)}


def fmt(v):
    if isinstance(v, bool):
        return "1" if v else "0"
    if isinstance(v, (bytes, bytearray)):
        return bytes(v).hex() or "-"
    return str(v)


def compare(case, outputs, stats):
    exp = case["expect"]
    if len(outputs) != len(exp):
        stats.fail({"kind": "driver-output-count"}, {"text": case["text"]}, "driver printed %d cases, expected %d" % (len(outputs), len(exp)))
        return
    nfail = 0
    for e, got in zip(exp, outputs):
        gd = dict(got)
        stats.case([case["text"], e["cmd"], e["struct"], e["a"].hex(), e["b"].hex()], e["nontrivial"], [e["cmd"] + ":" + e["kind"]] + (["equal-despite-byte-difference"] if e["cmd"] == "Q" and e["kind"] == "bitflip" and e["exp"].get("eqAB") else []), sample={"cmd": e["cmd"], "kind": e["kind"], "struct": e["struct"], "a": e["a"].hex(), "b": e["b"].hex(), "expected": {k: fmt(v) for k, v in e["exp"].items()}})
        for k, v in e["exp"].items():
            if gd.get(k) != fmt(v):
                if nfail < 8:
                    nfail += 1
                    stats.fail({"kind": "copy-equals-mismatch", "cmd": e["cmd"], "obs": k, "pair": e["kind"]}, {"text": case["text"], "struct": e["struct"], "a": e["a"].hex(), "b": e["b"].hex()}, "%s %s (%s): %s: generated code %r, reference %r\n a=%s\n b=%s" % (e["cmd"], e["struct"], e["kind"], k, gd.get(k), fmt(v), e["a"].hex(), e["b"].hex()))
                break


def run(ctx):
    ctx.rule = RULE
    ctx.assumptions = [
        "Equals is only called when both views are Ok (as cpp-reference requires); views use identical (no) parameters",
        "TryToCopyFrom over overlapping windows is compared byte-for-byte with memmove semantics",
    ]
    stats = vlib.Stats()
    nmod = ctx.pick(40, 300)
    rnd = random.Random(ctx.seed * 49979687 + 1)
    root = os.path.join(ctx.tmp, "c20")
    cases = []
    for i in range(nmod):
        c = build_case(rnd.randrange(2**62))
        if c["rejected"]:
            stats.discards += 1
            continue
        if not c["expect"]:
            stats.discards += 1
            continue
        d = os.path.join(root, "m%d" % i)
        farm.write_files(d, {"m.emb.h": c["header"], "driver.cc": c["driver"], "m.emb": c["text"]})
        c["dir"] = d
        cases.append(c)
    builds = farm.build_all([(c["dir"], "driver.cc", "driver", farm.GXX, []) for c in cases])
    runs = []
    for c, (d, ok, err) in zip(cases, builds):
        if not ok:
            first = next((l for l in err.split("\n") if "error" in l), err[:200])
            stats.fail({"kind": "does-not-compile", "msg": re.sub(r"[0-9]+", "N", first)[-100:]}, {"text": c["text"]}, err[-3000:])
        else:
            runs.append(c)
    results = farm.run_all([(c["dir"], "driver", c["script"]) for c in runs])
    for c, (rc, out, err) in zip(runs, results):
        if rc != 0:
            stats.fail({"kind": "driver-crashed", "rc": rc, "msg": re.sub(r"[0-9]+", "N", (err.strip().split("\n") or [""])[-1])[-100:]}, {"text": c["text"]}, err[-2000:])
            continue
        compare(c, D.parse_output(out), stats)
    shutil.rmtree(root, ignore_errors=True)
    ctx.stats = stats
    return ctx.finish(None)


def replay(ctx, data):
    return True
