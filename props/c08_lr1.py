"""C08 — the LR(1) generator builds a parser for exactly the grammar's language."""

import itertools
import json
import os
import random
import subprocess
import sys
import traceback

from hypothesis import strategies as st

import vlib
from vlib import emb
from embgen import gsample
from oracles import earley

from compiler.front_end import lr1, module_ir
from compiler.util import parser_types

PROPERTY = "C08"

RULE = (
    "cases = (grammar, token string): Hypothesis-generated small CFGs (<=5 nonterminals, <=4 terminals, <=9 productions, rhs<=4; random, "
    "LL(1)-by-construction, and template-derived families with epsilon, left/right/mutual recursion, useless symbols, ambiguity) x all strings up to "
    "length 5-6 over terminals + one foreign symbol, built under several PYTHONHASHSEEDs in subprocesses; plus the Emboss grammar x sampled/mutated sentences. "
    "Oracle = independent Earley recognizer, viable-prefix error position (reduced grammars), derivation checker, bounded ambiguity search. "
    "Non-trivial grammar = recursion or epsilon, conflict-free, >=1 accepted string of length>=2 and >=1 rejected string; distinct by (grammar, string) hash."
)

FOREIGN = "zz"


def tok(sym, i=0):
    return parser_types.Token(sym, sym, parser_types.SourceLocation((1, i + 1), (1, i + 2)))


def build_parser(start, prods):
    productions = [parser_types.Production(l, tuple(r)) for l, r in prods]
    return lr1.Grammar(start, productions).parser()


PARSE_LIMIT_S = 10


def check_grammar(start, prods, max_len, stats, klass, hashseed):
    """Runs every string up to max_len through parser and oracle."""
    gkey = [start, prods]
    g = earley.CFG(start, prods)
    case0 = {"start": start, "productions": prods, "hashseed": hashseed}
    try:
        parser = build_parser(start, prods)
    except Exception:
        stats.fail(dict(kind="generator-exception", **emb.exc_signature()), case0, traceback.format_exc())
        stats.case(["G", gkey, hashseed], False, [klass, "generator-exception"])
        return
    amb = earley.find_ambiguity(g, max_len=max_len)
    if parser.conflicts:
        stats.case(["G", gkey], False, [klass, "conflicts", "ambiguous-found" if amb else "no-ambiguity-found"])
        return
    if amb is not None:
        stats.fail({"kind": "ambiguous-accepted-as-conflict-free"}, dict(case0, sentence=list(amb)), "sentence %r has two distinct leftmost derivations but parser.conflicts is empty" % (list(amb),))
    reduced = g.is_reduced()
    pg = g.pruned()
    alphabet = sorted(g.terminals) + [FOREIGN]
    if len(alphabet) > 4:
        max_len = min(max_len, 5)
    recursive = any(l in r or any(s in g.nonterminals for s in r) for l, r in prods)
    has_eps = any(len(r) == 0 for _, r in prods)
    acc_long = rej = 0
    n = 0
    for s in earley.all_strings(alphabet, max_len):
        toks = [tok(x, i) for i, x in enumerate(s)]
        n += 1
        want_acc, want_idx = earley.recognize(pg, list(s))
        case = dict(case0, string=list(s))
        try:
            with emb.time_limit(PARSE_LIMIT_S):
                res = parser.parse(toks)
        except (emb.Timeout, MemoryError, RecursionError) as ex:
            # a parse of <= 6 tokens costs microseconds; the limit is ~10^5 times that
            stats.fail({"kind": "parse-does-not-terminate", "how": type(ex).__name__}, case, "parser.parse(%r) did not finish within %d s / the memory limit (%s)" % (list(s), PARSE_LIMIT_S, type(ex).__name__))
            break  # every further string would cost the full limit
        except Exception:
            stats.fail(dict(kind="parse-exception", **emb.exc_signature()), case, traceback.format_exc())
            continue
        if res.error is None:
            if not want_acc:
                stats.fail({"kind": "accepts-non-sentence"}, case, "parser accepts %r which the grammar does not derive" % (list(s),))
            else:
                e = earley.check_tree(
                    g,
                    res.parse_tree,
                    toks,
                    lambda x: isinstance(x, lr1.Reduction),
                    lambda x: x.symbol,
                    lambda x: x.children,
                    lambda x: (x.production.lhs, x.production.rhs),
                )
                if e:
                    stats.fail({"kind": "tree-not-a-derivation"}, case, e)
                if len(s) >= 2:
                    acc_long += 1
        else:
            rej += 1
            if want_acc:
                stats.fail({"kind": "rejects-sentence"}, case, "parser rejects %r (error at %d) which the grammar derives" % (list(s), res.error.index))
            elif reduced and res.error.index != want_idx:
                stats.fail({"kind": "error-position"}, case, "parser reports the error at token %d, the first non-viable token is %d in %r" % (res.error.index, want_idx, list(s)))
            if not want_acc:
                ex = res.error.expected_tokens
                if reduced and want_idx is not None and want_idx == res.error.index:
                    # every expected token must really be able to continue the prefix, and vice versa
                    for t in sorted(g.terminals) + [None]:
                        if t is None:
                            can = earley.recognize(pg, list(s[:want_idx]))[0]
                            name = lr1.END_OF_INPUT
                        else:
                            r2 = earley.recognize(pg, list(s[:want_idx]) + [t])
                            can = r2[0] or r2[1] is None or r2[1] > want_idx
                            name = t
                        if can != (name in ex):
                            stats.fail({"kind": "expected-tokens"}, case, "after %r token %r %s continue a sentence but expected_tokens=%r" % (list(s[:want_idx]), name, "can" if can else "cannot", sorted(ex)))
                            break
    nontrivial = (recursive or has_eps) and acc_long >= 1 and rej >= 1
    classes = [klass, "conflict-free", "reduced" if reduced else "non-reduced"]
    if has_eps:
        classes.append("epsilon")
    if recursive:
        classes.append("recursive")
    stats.evaluations += n - 1
    stats.case(["G", gkey], nontrivial, classes, sample={"class": klass, "start": start, "productions": ["%s -> %s" % (l, " ".join(r) or "<empty>") for l, r in prods], "strings": n, "accepted_len>=2": acc_long, "rejected": rej})
    if nontrivial:
        stats.extra["nontrivial_strings"] = stats.extra.get("nontrivial_strings", 0) + n


# --- grammar generation -----------------------------------------------------------

NTS = ["S", "A", "B", "C", "D"]
TS = ["a", "b", "c", "d"]


@st.composite
def random_cfg(draw):
    nn = draw(st.integers(1, 5))
    nt = draw(st.integers(1, 4))
    nts, ts = NTS[:nn], TS[:nt]
    syms = nts + ts
    nprod = draw(st.integers(1, 9))
    prods = []
    for i in range(nprod):
        lhs = nts[i] if i < nn and draw(st.integers(0, 9)) > 0 else draw(st.sampled_from(nts))
        rhs = draw(st.lists(st.sampled_from(syms + ts), min_size=0, max_size=4))
        prods.append([lhs, rhs])
    return "random", "S", prods


@st.composite
def ll1_cfg(draw):
    """LL(1)-by-construction core (alternatives start with distinct terminals, at most
    one epsilon alternative guarded by a disjoint follow marker), then optionally one
    left-recursive or arbitrary extra production."""
    nn = draw(st.integers(1, 4))
    nts = NTS[:nn]
    prods = []
    for a in nts:
        starts = draw(st.lists(st.sampled_from(TS[:3]), min_size=1, max_size=3, unique=True))
        for t in starts:
            tail = draw(st.lists(st.sampled_from(nts + TS), min_size=0, max_size=3))
            prods.append([a, [t] + tail])
        if draw(st.integers(0, 3)) == 0:
            prods.append([a, []])
    k = draw(st.integers(0, 3))
    if k == 1:
        a = draw(st.sampled_from(nts))
        prods.append([a, [a, draw(st.sampled_from(TS))]])
    elif k == 2:
        a = draw(st.sampled_from(nts))
        prods.append([a, draw(st.lists(st.sampled_from(nts + TS), min_size=0, max_size=3))])
    return "ll1-based", "S", prods[:9] if len(prods) > 9 else prods


TEMPLATES = [
    [["S", ["S", "a", "A"]], ["S", ["A"]], ["A", ["A", "b", "B"]], ["A", ["B"]], ["B", ["c"]], ["B", ["d", "S", "d"]]],  # expression grammar
    [["S", ["A", "S"]], ["S", []], ["A", ["a"]], ["A", ["b", "S", "c"]]],  # lists with epsilon
    [["S", ["A", "B"]], ["A", ["a", "A"]], ["A", []], ["B", ["b", "B"]], ["B", []]],  # nullable prefix/suffix
    [["S", ["a", "S", "b"]], ["S", []]],  # a^n b^n
    [["S", ["A", "a"]], ["S", ["B", "b"]], ["A", ["c"]], ["B", ["c"]]],  # LR(1) but needs lookahead
    [["S", ["a", "A", "d"]], ["S", ["b", "B", "d"]], ["S", ["a", "B", "c"]], ["S", ["b", "A", "c"]], ["A", ["c"]], ["B", ["c"]]],  # LR(1) not LALR(1)
    [["S", ["S", "S"]], ["S", []]],  # ambiguous, nullable, cyclic
    [["S", ["S", "a", "S"]], ["S", ["b"]]],  # ambiguous binary operator
    [["S", ["A"]], ["A", ["B"]], ["B", ["A"]], ["B", ["a"]]],  # unit cycle
    [["S", ["a", "B"]], ["S", ["a"]], ["B", ["C"]], ["C", ["C", "b"]]],  # unproductive symbols
    [["S", ["A", "A"]], ["A", []], ["A", ["a"]]],  # ambiguous through nullables
    [["S", ["c", "A", "B", "a"]], ["A", []], ["A", ["a"]], ["B", []], ["B", ["b"]]],
    [["S", ["A", "b"]], ["A", ["A", "a"]], ["A", []]],  # left recursion with epsilon base
    [["S", ["a", "A"]], ["A", ["b", "A"]], ["A", ["b"]], ["D", ["d"]]],  # unreachable symbol
    # FIRST through a nullable leading symbol and a chain of unit productions (several passes of the fixed point)
    [["S", ["A", "B"]], ["A", ["a"]], ["B", ["C", "D"]], ["C", ["b"]], ["C", []], ["D", ["c"]]],
    [["S", ["A", "B"]], ["A", ["a"]], ["B", ["C", "D"]], ["C", ["b"]], ["C", []], ["D", ["A"]], ["D", ["c"]]],
    [["S", ["A", "B"]], ["S", ["D", "B"]], ["A", ["a"]], ["D", ["a"]], ["B", ["C", "c"]], ["C", []]],  # ambiguous only through FIRST of a nullable prefix
    [["S", ["B", "A", "C"]], ["A", []], ["A", ["a"]], ["B", []], ["B", ["b"]], ["C", ["D"]], ["D", ["A", "c"]]],
    # two kernel items advancing over one symbol, and a later state holding only the first of them
    [["S", ["a", "A"]], ["S", ["a", "B"]], ["S", ["b", "A"]], ["A", ["c", "d"]], ["B", ["c", "a", "d"]]],
    [["S", ["a", "A", "d"]], ["S", ["b", "A", "c"]], ["S", ["a", "B", "c"]], ["A", ["c", "c"]], ["B", ["c", "c"]]],
]


@st.composite
def template_cfg(draw):
    prods = [list(map(lambda x: x, p)) for p in draw(st.sampled_from(TEMPLATES))]
    prods = [[l, list(r)] for l, r in prods]
    for _ in range(draw(st.integers(0, 2))):
        op = draw(st.integers(0, 4))
        i = draw(st.integers(0, len(prods) - 1))
        nts = sorted(set(l for l, _ in prods))
        if op == 0 and len(prods) > 1:
            del prods[i]
        elif op == 1:
            prods.append([draw(st.sampled_from(nts)), draw(st.lists(st.sampled_from(nts + TS), max_size=3))])
        elif op == 2 and prods[i][1]:
            j = draw(st.integers(0, len(prods[i][1]) - 1))
            prods[i][1][j] = draw(st.sampled_from(nts + TS))
        elif op == 3 and prods[i][1]:
            j = draw(st.integers(0, len(prods[i][1]) - 1))
            del prods[i][1][j]
        elif op == 4:
            j = draw(st.integers(0, len(prods[i][1])))
            prods[i][1].insert(j, draw(st.sampled_from(nts + TS)))
    if not any(l == "S" for l, _ in prods):
        prods.append(["S", ["a"]])
    return "template", "S", prods[:9]


def cfg_strategy():
    return st.one_of(random_cfg(), ll1_cfg(), ll1_cfg(), template_cfg(), template_cfg())


# --- worker process (one per PYTHONHASHSEED) -----------------------------------------

def worker_main(argv):
    """argv: out.json seed n max_len hashseed [replay.json]"""
    out, seed, n, max_len, hashseed = argv[0], int(argv[1]), int(argv[2]), int(argv[3]), int(argv[4])
    stats = vlib.Stats()
    try:  # a parser that loops allocates without bound: fail with MemoryError, not with the OOM killer
        import resource

        resource.setrlimit(resource.RLIMIT_AS, (3 * 2**30, 3 * 2**30))
    except Exception:
        pass
    if len(argv) > 5:
        with open(argv[5]) as f:
            cases = json.load(f)
        for c in cases:
            check_grammar(c["start"], c["productions"], max_len, stats, "replay", hashseed)
    else:

        def body(g):
            klass, start, prods = g
            check_grammar(start, prods, max_len, stats, klass, hashseed)

        vlib.hyp_run(cfg_strategy(), body, n, seed=seed)
    import pickle

    with open(out, "wb") as f:
        pickle.dump(stats, f)


def run_workers(ctx, jobs):
    """jobs: list of (seed, n, max_len, hashseed, replay_path or None)."""
    procs = []
    results = vlib.Stats()
    for i, (seed, n, max_len, hs, rp) in enumerate(jobs):
        out = os.path.join(ctx.tmp, "w%d.pkl" % i)
        env = dict(os.environ, PYTHONHASHSEED=str(hs))
        cmd = [sys.executable, "-c", "import sys; from props import c08_lr1; c08_lr1.worker_main(sys.argv[1:])", out, str(seed), str(n), str(max_len), str(hs)] + ([rp] if rp else [])
        procs.append((subprocess.Popen(cmd, env=env, cwd=vlib.VERIF, stdout=subprocess.PIPE, stderr=subprocess.STDOUT, text=True), out))
    import pickle

    for p, out in procs:
        o, _ = p.communicate()
        if p.returncode != 0 or not os.path.exists(out):
            raise vlib.HarnessError("C08 worker failed:\n" + (o or "")[-3000:])
        with open(out, "rb") as f:
            results.merge(pickle.load(f))
    return results


# --- the Emboss grammar ---------------------------------------------------------------

def emboss_shard(idx, seed, n):
    from props import c09_cached_parser as c09

    stats = vlib.Stats()
    prods = [(p.lhs, tuple(p.rhs)) for p in module_ir.PRODUCTIONS]
    g = earley.CFG(module_ir.START_SYMBOL, prods)
    fresh = c09.fresh_module_parser()

    def body(case_seed):
        rnd = random.Random(case_seed)
        syms = gsample.random_module_terms(rnd, budget=rnd.choice([8, 10, 12]), grow=0.6)[:90]
        klass = "emboss-sentence-prefix" if len(syms) == 90 else "emboss-sentence"
        if rnd.random() < 0.6:
            syms = c09.mutate_symbols(rnd, syms)
            klass = "emboss-mutated"
        toks = [tok(s, i) for i, s in enumerate(syms)]
        want_acc, want_idx = earley.recognize(g, syms)
        res = fresh.parse(toks)
        case = {"grammar": "emboss", "symbols": syms}
        stats.case(["E", syms], len(syms) >= 5, [klass, "accept" if want_acc else "reject"], sample={"class": klass, "symbols": " ".join(syms)[:200], "accepted": want_acc})
        if (res.error is None) != want_acc:
            stats.fail({"kind": "emboss-accept-mismatch"}, case, "parser %s, Earley %s" % ("accepts" if res.error is None else "rejects at %d" % res.error.index, "accepts" if want_acc else "rejects at %d" % want_idx))
        elif res.error is not None and res.error.index != want_idx:
            stats.fail({"kind": "emboss-error-position"}, case, "parser error index %d, first non-viable token %d" % (res.error.index, want_idx))
        elif res.error is None:
            e = earley.check_tree(g, res.parse_tree, toks, lambda x: isinstance(x, lr1.Reduction), lambda x: x.symbol, lambda x: x.children, lambda x: (x.production.lhs, x.production.rhs))
            if e:
                stats.fail({"kind": "emboss-tree"}, case, e)

    vlib.hyp_run(st.integers(0, 2**63), body, n, seed=seed * 1021 + idx)
    return stats


def run(ctx):
    ctx.rule = RULE
    ctx.assumptions = [
        "Earley recognizer / viable-prefix computation written for this check is the reference",
        "error-position and expected-token clauses are only applied to reduced grammars (canonical LR(1) detects errors immediately only there)",
        "ambiguity search is bounded (strings <= max_len, 30000 sentential forms): a miss is not a claim of unambiguity",
    ]
    per = ctx.pick(40, 400)
    max_len = ctx.pick(5, 6)
    hashseeds = [0, 1, 2, 3, 5, 7, 11, 13]
    jobs = []
    for i in range(16):
        jobs.append((ctx.seed * 1031 + i // 2, per, max_len, hashseeds[i % len(hashseeds)], None))
    # literal regression grammars (every template, unmutated) under every hash seed
    lit = os.path.join(ctx.tmp, "lit.json")
    with open(lit, "w") as f:
        json.dump([{"start": "S", "productions": t} for t in TEMPLATES], f)
    for hs in hashseeds:
        jobs.append((0, 0, max_len, hs, lit))
    ctx.stats = run_workers(ctx, jobs)
    # the Emboss grammar itself is conflict-free (the shipped tables were generated from it): the
    # generator must build a parser for it; conflicts or an exception here are its failure
    try:
        from props import c09_cached_parser as c09

        c09.fresh_module_parser()
    except Exception:
        ctx.stats.fail(dict(kind="generator-fails-on-emboss-grammar", **emb.exc_signature()), {"grammar": "emboss (module_ir.PRODUCTIONS)"}, traceback.format_exc()[-3000:])
        return ctx.finish(None)
    ctx.stats.merge(vlib.run_shards(emboss_shard, 16, seed=ctx.seed, n=ctx.pick(12, 200)))
    return ctx.finish(None)


def replay(ctx, data):
    case = data["case"]
    if case.get("grammar") == "emboss":
        return True
    lit = os.path.join(ctx.tmp, "r.json")
    with open(lit, "w") as f:
        json.dump([case], f)
    st_ = run_workers(ctx, [(0, 0, 6, case.get("hashseed", 0), lit)])
    for f_ in st_.failures[:5]:
        print("still failing:", f_["sig"], f_["detail"][-600:])
    return not st_.failures
