"""C10 — tokenization is lossless, position-accurate and classifies as documented."""

import random
import re

from hypothesis import strategies as st

import vlib
from vlib import emb
from embgen import gsample, textmut
from oracles import reftok

from compiler.front_end import tokenizer

PROPERTY = "C10"

RULE = (
    "cases = source texts from 5 classes (Hypothesis st.text over the Emboss alphabet + all Unicode line terminators/whitespace; "
    "token soup of documented lexemes and look-alikes; indentation programs; noisy renderings of grammar derivations; mutated corpus files); "
    "oracle = reference tokenizer compiled from doc/grammar.md's pattern table + position/coverage/indentation invariants + "
    "name/number classification from the language reference's prose. Non-trivial = >=2 lines, >=1 indentation change and >=5 tokens; distinct by text hash."
)

_ref = None


def ref():
    global _ref
    if _ref is None:
        _ref = reftok.RefTokenizer(emb.REPO)
    return _ref


WORD_RUN = re.compile(r"[A-Za-z0-9_$]+")
NAMES = ("SnakeWord", "CamelWord", "ShoutyWord")


def check_text(text):
    """Returns (list of (sig, detail), info dict)."""
    out = []
    info = {"tokens": 0, "lines": 0, "indents": 0, "error": None}
    try:
        toks, errs = tokenizer.tokenize(text, "f.emb")
    except Exception:
        import traceback

        return [(dict(kind="exception", **emb.exc_signature()), traceback.format_exc())], info
    # tokenize is a function of its arguments: what one caller does to the list it got (consumers do
    # edit token lists in place) must not show in what the next caller gets for the same text
    try:
        shape1 = None if toks is None else [(t.symbol, t.text, str(t.source_location)) for t in toks]
        if toks:
            del toks[len(toks) // 2]
            if toks:
                toks[0] = None
        toks_b, errs_b = tokenizer.tokenize(text, "f.emb")
        shape2 = None if toks_b is None else [(getattr(t, "symbol", None), getattr(t, "text", None), str(getattr(t, "source_location", None))) for t in toks_b]
        if shape1 != shape2 or bool(errs) != bool(errs_b):
            out.append(({"kind": "result-shared-between-calls"}, "tokenize(text) after the previous result was edited in place returns %d tokens instead of %d" % (len(shape2 or []), len(shape1 or []))))
            return out, info
        toks = toks_b
    except Exception:
        import traceback

        return [(dict(kind="exception-on-second-call", **emb.exc_signature()), traceback.format_exc())], info
    status = ref().tokenize(text)
    lines = reftok.split_lines(text)
    info["lines"] = len(lines)
    if errs:
        info["error"] = errs[0][0].message
        if toks is not None:
            out.append(({"kind": "tokens-and-errors"}, "tokens returned together with errors"))
        m = errs[0][0]
        if status[0] == "ok":
            out.append(({"kind": "spurious-error", "msg": m.message}, "tokenizer reports %r at %s; every character matches a documented pattern and indentation is consistent" % (m.message, m.location)))
        else:
            want_line = status[2]
            if m.location.start.line != want_line:
                out.append(({"kind": "error-line", "msg": m.message}, "error at %s, reference expects line %d (%s)" % (m.location, want_line, status[1])))
            elif status[1] == "unrecognized" and m.location.start.column != status[3]:
                out.append(({"kind": "error-column", "msg": m.message}, "error at %s, reference expects column %d" % (m.location, status[3])))
        return out, info
    if status[0] == "error":
        out.append(({"kind": "missed-error", "what": status[1]}, "reference: %s error at %d:%d, tokenizer returned %d tokens" % (status[1], status[2], status[3], len(toks))))
        return out, info
    got = [(t.symbol, t.text, t.source_location.start.line, t.source_location.start.column, t.source_location.end.line, t.source_location.end.column) for t in toks]
    info["tokens"] = len([g for g in got if g[0] not in ('"\\n"', "Indent", "Dedent")])
    info["indents"] = len([g for g in got if g[0] in ("Indent", "Dedent")])
    want = status[1]
    if got != want:
        for i in range(max(len(got), len(want))):
            a = got[i] if i < len(got) else None
            b = want[i] if i < len(want) else None
            if a != b:
                kind = "token-differs"
                if a and b and a[:2] == b[:2]:
                    kind = "position-differs"
                elif a and b and a[1] == b[1]:
                    kind = "symbol-differs"
                out.append(({"kind": kind, "got": (a[0] if a else None), "want": (b[0] if b else None)}, "token %d: tokenizer %r, reference (doc/grammar.md) %r" % (i, a, b)))
                break
    # --- invariants that need no reference -----------------------------------
    nl_per_line = {}
    per_line = {}
    depth = 0
    for sym, t, l1, c1, l2, c2 in got:
        if sym == "Indent":
            depth += 1
        elif sym == "Dedent":
            depth -= 1
            if depth < 0:
                out.append(({"kind": "dedent-below-zero"}, "Dedent without open Indent at line %d" % l1))
                break
        if sym == '"\\n"':
            nl_per_line[l1] = nl_per_line.get(l1, 0) + 1
        if sym in ("Dedent",):
            continue
        if sym == "Indent":
            if not (1 <= l1 <= len(lines)) or lines[l1 - 1][c1 - 1 : c2 - 1] != t or not t.isspace():
                out.append(({"kind": "indent-slice"}, "Indent token %r at %d:%d-%d does not match source" % (t, l1, c1, c2)))
            continue
        if sym == '"\\n"':
            if not (1 <= l1 <= len(lines)) or c1 != len(lines[l1 - 1]) + 1:
                out.append(({"kind": "newline-position"}, "newline token at %d:%d, line length %d" % (l1, c1, len(lines[l1 - 1]) if 1 <= l1 <= len(lines) else -1)))
            continue
        if l1 != l2 or not (1 <= l1 <= len(lines)) or lines[l1 - 1][c1 - 1 : c2 - 1] != t or not t:
            out.append(({"kind": "slice-mismatch", "sym": sym}, "token %r (%s) at %d:%d-%d:%d but source slice is %r" % (t, sym, l1, c1, l2, c2, lines[l1 - 1][c1 - 1 : c2 - 1] if 1 <= l1 <= len(lines) else None)))
            continue
        per_line.setdefault(l1, []).append((c1, c2, sym, t))
    if depth != 0:
        out.append(({"kind": "indent-unbalanced"}, "Indent/Dedent depth at end of input: %d" % depth))
    for ln in range(1, len(lines) + 1):
        if nl_per_line.get(ln, 0) != 1:
            out.append(({"kind": "newline-count"}, "line %d has %d newline tokens" % (ln, nl_per_line.get(ln, 0))))
            break
        pos = 1
        line = lines[ln - 1]
        for c1, c2, sym, t in per_line.get(ln, []):
            if c1 < pos:
                out.append(({"kind": "overlap-or-disorder"}, "line %d: token %r starts at %d before %d" % (ln, t, c1, pos)))
                break
            if line[pos - 1 : c1 - 1].strip() != "" and not line[pos - 1 : c1 - 1].isspace():
                out.append(({"kind": "gap-not-whitespace"}, "line %d: uncovered text %r" % (ln, line[pos - 1 : c1 - 1])))
                break
            pos = c2
        else:
            tail = line[pos - 1 :]
            if tail and not tail.isspace():
                out.append(({"kind": "gap-not-whitespace"}, "line %d: uncovered tail %r" % (ln, tail)))
        # classification by the language reference's prose
        for c1, c2, sym, t in per_line.get(ln, []):
            if not WORD_RUN.fullmatch(t):
                continue
            before = line[c1 - 2] if c1 >= 2 else " "
            after = line[c2 - 1] if c2 - 1 < len(line) else " "
            if WORD_RUN.fullmatch(before) or WORD_RUN.fullmatch(after):
                out.append(({"kind": "word-split", "sym": sym}, "line %d: %r is only part of the word around column %d" % (ln, t, c1)))
                continue
            want_c = reftok.prose_class(t)
            if want_c is None:
                continue
            ok = True
            if want_c in ("Number",) + NAMES:
                ok = sym == want_c
            elif want_c == "not-a-number":
                ok = sym not in ("Number",) + NAMES
            elif want_c == "not-a-name":
                ok = sym not in ("Number",) + NAMES
            if not ok:
                out.append(({"kind": "classification", "want": want_c, "got": sym}, "word %r classified %s, language reference says %s" % (t, sym, want_c)))
    return out, info


# ---------------------------------------------------------------------------

ALPHA = "".join(sorted(set("abxyzABXYZ0189_$[]():=+-*.?!&|<>,#\"\\ \t\n\r\v\f\x1c\x1d\x1e\x1f\x85\xa0  é")))


def indentation_program(rnd):
    units = [" ", "  ", "\t", "    ", " \t", "\xa0", " "]
    stack = [""]
    lines = []
    for _ in range(rnd.randrange(2, 25)):
        r = rnd.random()
        if r < 0.3:
            stack.append(stack[-1] + rnd.choice(units))
        elif r < 0.5 and len(stack) > 1:
            del stack[rnd.randrange(1, len(stack)) :]
        elif r < 0.58:
            lines.append(rnd.choice(["", "   ", "\t", "  # c", "#c", " \t #"]))
            continue
        elif r < 0.64:
            # a level that was never opened, or a different spelling of the same width
            lines.append(rnd.choice([" ", "\t", "   ", stack[-1].replace(" ", "\t", 1)]) + "x")
            continue
        lines.append(stack[-1] + rnd.choice(["a", "struct Foo:", "0 [+1] UInt x", "-- d", "AA = 1", "a # c", "if x:"]) + rnd.choice(["", " ", "  "]))
    return rnd.choice(["\n", "\n", "\r\n", "\r"]).join(lines) + rnd.choice(["", "\n"])


# characters an editor or a file transfer puts in front of, or into, a text without showing them:
# byte-order mark, zero-width space / joiner / word joiner, soft hyphen, direction marks
INVISIBLE = ["\ufeff", "\u200b", "\u200d", "\u2060", "\u00ad", "\u200e", "\ufffe", "\x00", "\x1a"]


def build_text(rnd):
    klass, text = build_text_plain(rnd)
    r = rnd.random()
    if r < 0.06:
        return klass + "+invisible-prefix", rnd.choice(INVISIBLE) + text
    if r < 0.10 and text:
        k = rnd.randrange(len(text))
        return klass + "+invisible-inside", text[:k] + rnd.choice(INVISIBLE) + text[k:]
    return klass, text


def build_text_plain(rnd):
    k = rnd.random()
    if k < 0.3:
        return "token-soup", textmut.token_soup(rnd)
    if k < 0.45:
        return "random-text", textmut.random_text(rnd, rnd.choice([20, 100, 400]))
    if k < 0.6:
        return "indentation", indentation_program(rnd)
    if k < 0.8:
        return "grammar-noisy", gsample.render(rnd, gsample.random_module_terms(rnd), noisy=True)
    from props import c16_total

    files, main = rnd.choice(c16_total.corpus_sets())
    return "corpus-mutation", textmut.mutate(rnd, files[main])


def record(stats, klass, text):
    sigs, info = check_text(text)
    nontrivial = info["lines"] >= 2 and info["indents"] >= 1 and info["tokens"] >= 5
    classes = [klass, "error" if info["error"] else "tokenized"]
    if info["error"]:
        classes.append("err:" + info["error"])
    if any(c in text for c in "\r\v\f\x1c\x1d\x1e\x85  "):
        classes.append("unicode-line-break")
    stats.case(text, nontrivial, classes, sample={"class": klass, "text": text[:300], "tokens": info["tokens"], "indent_tokens": info["indents"]})
    for sig, detail in sigs:
        stats.fail(sig, {"text": text}, detail)


def shard(idx, seed, n):
    stats = vlib.Stats()

    def body(case_seed):
        klass, text = build_text(random.Random(case_seed))
        record(stats, klass, text)

    vlib.hyp_run(st.integers(0, 2**63), body, n, seed=seed * 1013 + idx)

    # class (a) driven directly by Hypothesis' text strategy
    def body2(text):
        record(stats, "hypothesis-text", text)

    vlib.hyp_run(st.text(alphabet=ALPHA, max_size=80), body2, max(50, n // 3), seed=seed * 1013 + idx + 500)
    return stats


def minimise(sig, case, detail):
    text = case["text"]

    def fails(chars):
        return any(s == sig for s, _ in check_text("".join(chars))[0])

    if not fails(list(text)):
        return None, None
    chars = vlib.ddmin(list(text), fails, max_tests=1500)
    t = "".join(chars)
    det = [d for s, d in check_text(t)[0] if s == sig]
    return {"text": t}, det[0] if det else detail


def run(ctx):
    ctx.rule = RULE
    ctx.assumptions = [
        "lines are delimited as Python documents for str.splitlines; whitespace is str.isspace",
        "doc/grammar.md's pattern table is the specification (C09 separately ties it to the code)",
        "name/number classification is compared only where the language reference's prose decides (not for `0x_..`, $-words, reserved emboss prefixes)",
    ]
    per = ctx.pick(500, 15000)
    ctx.stats = vlib.run_shards(shard, 16, seed=ctx.seed, n=per)
    if not ctx.quick:
        atheris_tier(ctx)
    return ctx.finish(minimise)


def atheris_tier(ctx):
    """Coverage-guided tier: atheris drives the same oracle over raw bytes."""
    import os, subprocess, sys, json, tempfile

    out = os.path.join(ctx.tmp, "atheris")
    os.makedirs(out, exist_ok=True)
    script = os.path.join(vlib.VERIF, "props", "c10_atheris.py")
    procs = []
    for i in range(8):
        d = os.path.join(out, "c%d" % i)
        os.makedirs(d)
        env = dict(os.environ, C10_OUT=os.path.join(d, "fail.json"))
        procs.append(subprocess.Popen([sys.executable, script, "-runs=150000", "-seed=%d" % (ctx.seed * 31 + i + 1), "-max_len=300", d], env=env, stdout=subprocess.DEVNULL, stderr=subprocess.PIPE, text=True, cwd=d))
    runs = 0
    for i, p in enumerate(procs):
        _, err = p.communicate()
        m = re.findall(r"stat::number_of_executed_units:\s*(\d+)", err) or re.findall(r"Done (\d+) runs", err)
        runs += int(m[-1]) if m else 0
        fj = os.path.join(out, "c%d" % i, "fail.json")
        if os.path.exists(fj):
            with open(fj) as f:
                for rec in json.load(f):
                    ctx.stats.fail(rec["sig"], {"text": rec["text"]}, rec["detail"])
    ctx.coverage_extra["atheris_runs"] = runs


def replay(ctx, data):
    sigs, _ = check_text(data["case"]["text"])
    for s, d in sigs:
        print("still failing:", s, d[:500])
    return not sigs
