"""C16 — the compiler is total: any input yields output or well-formed located
errors (no uncaught exception, messages name a known file and a position in
it, render with their source line, never '[compiler bug]')."""

import os
import random
import re
import subprocess
import sys

from hypothesis import strategies as st

import vlib
from vlib import emb
from embgen import gsample, textmut

PROPERTY = "C16"

RULE = (
    "cases = source sets (main file + 0-2 import files) from 6 classes: random text, token soup, "
    "grammar-derived programs over a small identifier pool, line/token mutations of the repository corpus, "
    "semantic programs from the embgen model (valid, singly mutated, and with 1-3 scope-aware substitutions: expression slots replaced by expressions over names that are in scope there but of any kind - scalar/struct/array/enum/virtual fields incl. later ones, parameters, generated $size fields, $next, this, static references, huge constants, builtin functions), deep expression nesting (<=40); "
    "each compiled in-process front end -> back end -> format_errors, a sample through the embossc CLI. "
    "Non-trivial = main file tokenises and parses (IR passes reached) or fails with a located error on a line > 1; "
    "distinct by hash of the source set."
)

LIMIT_S = 120  # normal cost is ~0.05 s; see DESIGN §3 rule 5


def _norm_msg(m):
    m = m.splitlines()[0] if m else ""
    m = re.sub(r"'[^']*'", "'_'", m)
    m = re.sub(r"[0-9]+", "N", m)
    return m[:80]


def evaluate(stats, files, main, klass, cli=False, repo=None):
    """Compiles one source set and records the case / any failure.  Returns sig list."""
    case = {"files": files, "main": main}
    sigs = check_case(files, main)
    r = check_case.last
    parsed = bool(r.debug and r.debug.modules.get(main) is not None and r.debug.modules[main].parse_tree is not None)
    located_late = any(m.location.start.line > 1 for g in (r.errors or []) for m in g if not m.location.is_synthetic)
    classes = [klass, "accepted" if r.accepted else ("exception" if r.exc else "rejected"), "parsed" if parsed else "unparsed"]
    if r.errors and parsed:
        classes.append("semantic-error")
    stats.case(case, parsed or located_late, classes, sample={"class": klass, "main": files[main][:400], "outcome": classes[1], "first_error": (r.errors[0][0].message[:100] if r.errors and r.errors[0] else None)})
    for sig, detail in sigs:
        stats.fail(sig, case, detail)
    if cli and not sigs:
        sig = run_cli(files, main, r)
        if sig:
            stats.fail(sig[0], case, sig[1])
        stats.classes["cli"] += 1
    return sigs


def check_case(files, main, limit_s=None):
    r = emb.compile_files(files, main, limit_s=limit_s or LIMIT_S)
    check_case.last = r
    out = []
    if r.exc:
        sig = dict(kind="exception", **r.exc_sig)
        out.append((sig, r.exc_text))
        return out
    if r.front_mismatch:
        out.append(({"kind": "ir-errors-mismatch"}, r.front_mismatch))
    for kind, text in emb.check_error_shape(r, files):
        out.append(({"kind": kind, "msg": _norm_msg(text.split(": ", 1)[-1])}, text))
    if r.errors:
        for srcs, label in ((files, "with-sources"), ({}, "without-sources")):
            try:
                s = emb.format_errors(r, srcs)
                if not isinstance(s, str) or not s:
                    out.append(({"kind": "format-empty", "how": label}, repr(s)))
                try:
                    emb.format_errors(r, srcs, color=True)
                except Exception:
                    sig = dict(kind="format_errors", how=label + "-color", **emb.exc_signature())
                    out.append((sig, __import__("traceback").format_exc()))
            except Exception:
                sig = dict(kind="format_errors", how=label, **emb.exc_signature())
                out.append((sig, __import__("traceback").format_exc()))
    return out


check_case.last = None


def run_cli(files, main, r):
    import tempfile, shutil

    d = tempfile.mkdtemp(prefix="verif_c16cli_")
    try:
        for name, text in files.items():
            p = os.path.join(d, name)
            os.makedirs(os.path.dirname(p), exist_ok=True)
            with open(p, "w", newline="") as f:
                f.write(text)
        env = dict(os.environ, PYTHONPATH=emb.REPO)
        try:
            p = subprocess.run([sys.executable, os.path.join(emb.REPO, "embossc"), "--import-dir", d, "--output-path", os.path.join(d, "out"), main], cwd=d, env=env, capture_output=True, text=True, timeout=300)
        except subprocess.TimeoutExpired:
            return ({"kind": "cli-timeout"}, "embossc did not finish in 300 s")
        if "Traceback (most recent call last)" in p.stderr:
            tail = p.stderr.strip().splitlines()[-1]
            return ({"kind": "cli-traceback", "exc": tail.split(":")[0]}, p.stderr[-3000:])
        if p.returncode not in (0, 1):
            return ({"kind": "cli-exit", "code": p.returncode}, p.stderr[-2000:])
        want = 0 if r.accepted else 1
        # text files are re-read through open() with universal newlines, so only compare when that cannot matter
        if p.returncode != want and not any(c in t for t in files.values() for c in "\r"):
            return ({"kind": "cli-vs-inprocess", "cli": p.returncode, "inproc": want}, p.stderr[-2000:])
        # the other two entry points: emboss_front_end writing the IR to a file, emboss_codegen_cpp reading it
        irj = os.path.join(d, "ir.json")
        try:
            a = subprocess.run([sys.executable, "-m", "compiler.front_end.emboss_front_end", "--import-dir", d, "--output-file", irj, main], cwd=d, env=env, capture_output=True, text=True, timeout=300)
            b = None
            if a.returncode == 0 and os.path.exists(irj):
                b = subprocess.run([sys.executable, "-m", "compiler.back_end.cpp.emboss_codegen_cpp", "--input-file", irj, "--output-file", os.path.join(d, "two.h")], cwd=d, env=env, capture_output=True, text=True, timeout=300)
        except subprocess.TimeoutExpired:
            return ({"kind": "cli-timeout", "program": "front_end|codegen"}, "emboss_front_end | emboss_codegen_cpp did not finish in 300 s")
        for prog, q in (("emboss_front_end", a), ("emboss_codegen_cpp", b)):
            if q is None:
                continue
            if "Traceback (most recent call last)" in q.stderr:
                tail = q.stderr.strip().splitlines()[-1]
                return ({"kind": "cli-traceback", "program": prog, "exc": tail.split(":")[0]}, q.stderr[-3000:])
            if q.returncode not in (0, 1):
                return ({"kind": "cli-exit", "program": prog, "code": q.returncode}, q.stderr[-2000:])
        return None
    finally:
        shutil.rmtree(d, ignore_errors=True)


# ---------------------------------------------------------------------------
# case construction
# ---------------------------------------------------------------------------

_corpus = None


def corpus_sets():
    """Source sets from the repository corpus: (files, main)."""
    global _corpus
    if _corpus is None:
        c = emb.corpus()
        sets = []
        for name, text in c.items():
            if name.startswith("compiler/"):
                continue
            files = {name: text}
            # imports are written relative to the repo root in testdata
            for imp in re.findall(r'^import "([^"]+)"', text, re.M):
                for cand in (imp, os.path.join("testdata", "import_dir", imp)):
                    if cand in c:
                        files[imp] = c[cand]
                        for imp2 in re.findall(r'^import "([^"]+)"', c[cand], re.M):
                            if imp2 in c:
                                files[imp2] = c[imp2]
            sets.append((files, name))
        _corpus = sets
    return _corpus


SEM_POOLS = {"snake": ["a", "b", "x", "len", "tag"], "camel": ["Foo", "Bar", "UInt", "Int", "Flag", "Ee"], "shouty": ["AA", "BB"], "number": ["0", "1", "2", "4", "8", "16"], "string": ['"LittleEndian"', '"BigEndian"', '"imp.emb"']}

IMPORTED = 'enum Ee:\n  AA = 1\n  BB = 2\nstruct Bar:\n  0 [+1]  UInt  a\n'


def build_case(rnd, model_source=None):
    k = rnd.random()
    if k < 0.10:
        return "random-text", {"m.emb": textmut.random_text(rnd, rnd.choice([10, 60, 300]))}, "m.emb"
    if k < 0.22:
        return "token-soup", {"m.emb": textmut.token_soup(rnd)}, "m.emb"
    if k < 0.40:
        terms = gsample.random_module_terms(rnd)
        text = gsample.render(rnd, terms, noisy=rnd.random() < 0.5, pools=SEM_POOLS)
        files = {"m.emb": text}
        if rnd.random() < 0.5:
            files["imp.emb"] = IMPORTED
        return "grammar-derived", files, "m.emb"
    if k < 0.60 or model_source is None:
        files, main = rnd.choice(corpus_sets())
        files = dict(files)
        donors = [f[m] for f, m in corpus_sets()[:12]]
        victim = main if rnd.random() < 0.8 or len(files) == 1 else rnd.choice(sorted(files))
        files[victim] = textmut.mutate(rnd, files[victim], donors)
        if rnd.random() < 0.1:
            files = {k: v for k, v in files.items() if k == main or rnd.random() < 0.5}  # missing import
        return "corpus-mutation", files, main
    if k < 0.72:
        snips = emb.test_snippets()
        t = rnd.choice(snips)
        if rnd.random() < 0.6:
            t = textmut.mutate(rnd, t, snips[:40], n_mut=rnd.choice([1, 1, 2]))
        return "test-snippet", {"m.emb": t, "imp.emb": IMPORTED}, "m.emb"
    if k < 0.77:
        from embgen import depgraph

        g = depgraph.random_graph(rnd)
        kk = rnd.random()
        if kk < 0.6:
            t = depgraph.struct_program(rnd, g)[0]
        elif kk < 0.8:
            t = depgraph.enum_program(rnd, g)[0]
        else:
            files, main = depgraph.import_program(rnd, g)
            return "depgraph", files, main
        if rnd.random() < 0.4:
            t = textmut.mutate(rnd, t, n_mut=1)
        return "depgraph", {"m.emb": t}, "m.emb"
    if k < 0.81:
        d = rnd.choice([5, 10, 20, 30, 40])
        e = textmut.deep_expression(rnd, d)
        text = "enum Ee:\n  AA = 1\nstruct Foo:\n  0 [+1]  UInt  x\n  let y = %s\n  if %s == 0:\n    1 [+1]  UInt  z\n" % (e, e)
        return "deep-expression", {"m.emb": text}, "m.emb"
    from embgen import semgen

    if k < 0.90:
        return semgen.scope_substituted_source(rnd)
    if k < 0.94:
        return semgen.range_gate_source(rnd)
    if rnd.random() < 0.3:
        return semgen.import_pair(rnd)
    return model_source(rnd)


def boundary_location_family():
    """Always part of the run: every field kind at sizes and offsets on the edges of what the passes
    expect (negative, zero, one too many, huge), with the field used again elsewhere so that later
    passes see it.  ~150 small programs."""
    kinds = [("UInt", "x == 3", "x + 1"), ("Int", "x == 3", "x + 1"), ("Bcd", "x == 3", "x + 1"), ("Flag", "x", "x ? 1 : 2"), ("Float", "a == 3", "a + 1"), ("Ee", "x == Ee.AA", "x == Ee.AA ? 1 : 2"), ("Sub", "x.q == 3", "x.q + 1"), ("UInt:8[]", "a == 3", "a + 1"), ("UInt:8[2]", "a == 3", "a + 1"), ("Bi", "x.lo == 3", "x.lo + 1")]
    edges = ["-1", "0-1", "1-2", "0", "9", "65", "-9223372036854775808", "18446744073709551615", "18446744073709551616", "a - 1", "a - 300", "0 * a - 1"]
    out = []
    head = '[$default byte_order: "LittleEndian"]\nenum Ee:\n  AA = 1\nstruct Sub:\n  0 [+1]  UInt  q\nbits Bi:\n  0 [+8]  UInt  lo\n'
    for kind, cond, val in kinds:
        for e in edges:
            for where in ("size", "start"):
                loc = ("1 [+%s]" % e) if where == "size" else ("%s [+1]" % e)
                body = "struct Foo:\n  0 [+1]  UInt  a\n  %s  %s  x\n  if %s:\n    20 [+1]  UInt  y\n  let z = %s\n  x [+1]  UInt  w\n" % (loc, kind, cond, val)
                out.append({"m.emb": head + body})
    for e in edges:
        out.append({"m.emb": head + "bits Foo:\n  0 [+4]  UInt  a\n  4 [+%s]  UInt  x\n  if x == 3:\n    20 [+1]  Flag  y\n  let z = x + 1\n" % e})
    return out


# accepted modules that go through all three programs on every run: every kind of constant and
# expression node the back end has to render from an IR it did not build itself
CLI_LITERALS = [
    '[$default byte_order: "LittleEndian"]\nenum Ee:\n  AA = 0\n  BB = 3\nstruct Foo:\n  0 [+1]  UInt  x\n  1 [+1]  bits:\n    0 [+1]  Flag  compressed\n    1 [+7]  UInt  rest\n  if compressed == false:\n    2 [+1]  UInt  y\n  if true:\n    3 [+1]  UInt  z\n  let never = false\n  let always = true\n  let e = Ee.BB\n  let k = 0\n  let big = 18446744073709551615\n  let neg = -9223372036854775808\n  let mixed = (x == 0 && false) || compressed\n  let choice = false ? 1 : 2\n',
    '[$default byte_order: "BigEndian"]\nstruct Pp(n: UInt:8, flag: UInt:1):\n  0 [+n]  UInt:8[]  xs\n  if flag == 0:\n    n [+1]  UInt  tail\nstruct Foo:\n  0 [+1]  UInt  len\n    [requires: 0 <= this <= 100]\n  1 [+101]  Pp(len, 0)  body\n  let m = $max(len, 3, 0)\n  let p = $present(body)\n  let ub = $upper_bound(len + 1)\n',
]


def shard(idx, seed, n, cli_n, tier):
    stats = vlib.Stats()
    if idx < len(CLI_LITERALS):
        evaluate(stats, {"m.emb": CLI_LITERALS[idx]}, "m.emb", "cli-literal", cli=True)
    try:
        from embgen import semgen

        model_source = semgen.c16_source
    except ImportError:
        model_source = None
    count = [0]

    def body(case_seed):
        rnd = random.Random(case_seed)
        klass, files, main = build_case(rnd, model_source)
        count[0] += 1
        evaluate(stats, files, main, klass, cli=count[0] <= cli_n)

    vlib.hyp_run(st.integers(0, 2**63), body, n, seed=seed * 1009 + idx)
    fam = boundary_location_family()
    for i, files in enumerate(fam):
        if i % 16 == idx:
            evaluate(stats, files, "m.emb", "boundary-location-family")
    return stats


def minimise(sig, case, detail):
    files, main = dict(case["files"]), case["main"]

    slow = sig.get("exc") == "Timeout"
    if slow:
        return None, None  # every probe would cost the full time limit

    def fails(fs):
        return any(s == sig for s, _ in check_case(fs, main, limit_s=20))

    if not fails(files):
        return None, None
    # drop whole import files
    for name in sorted(files):
        if name != main:
            trial = {k: v for k, v in files.items() if k != name}
            if fails(trial):
                files = trial
    for name in sorted(files):
        lines = files[name].split("\n")

        def f(ls, name=name):
            t = dict(files)
            t[name] = "\n".join(ls)
            return fails(t)

        lines = vlib.ddmin(lines, f, max_tests=300)
        files[name] = "\n".join(lines)
        if len(files[name]) < 400:
            toks = textmut.split_tokens(files[name])

            def g(ts, name=name):
                t = dict(files)
                t[name] = "".join(ts)
                return fails(t)

            toks = vlib.ddmin(toks, g, max_tests=300)
            files[name] = "".join(toks)
    sigs = check_case(files, main)
    det = [d for s, d in sigs if s == sig]
    return {"files": files, "main": main}, det[0] if det else detail


def run(ctx):
    ctx.rule = RULE
    ctx.assumptions = [
        "termination judged by a %d s limit per case (normal cost ~0.05 s)" % LIMIT_S,
        "a position (n+1, 1) just past the last line of an n-line file counts as inside the file (end-of-input)",
        "in-process entry points glue.parse_emboss_file / header_generator.generate_header / error.format_errors; embossc, emboss_front_end and emboss_codegen_cpp as programs for a sample",
    ]
    nshards = 16
    per = ctx.pick(260, 3000)
    cli_n = ctx.pick(2, 12)
    ctx.stats = vlib.run_shards(shard, nshards, seed=ctx.seed, n=per, cli_n=cli_n, tier=ctx.tier)
    # literal reproducers of recorded known findings are re-run every time
    for kf in ctx.known:
        rep = kf.get("reproducer")
        if kf.get("status") == "known" and rep:
            sigs = check_case(rep["files"], rep["main"])
            if not any(vlib.sig_matches(kf["matcher"], s) for s, _ in sigs):
                print("NOTE: known finding %s no longer reproduces from its literal reproducer" % kf["id"])
            for s, d in sigs:
                ctx.stats.fail(s, rep, d)
    return ctx.finish(minimise)


def replay(ctx, data):
    case = data["case"]
    sigs = check_case(case["files"], case["main"])
    for s, d in sigs:
        print("still failing:", s)
        print(d[:1500])
    return not sigs
