"""C18 — the IR survives serialization; split and in-process pipelines agree."""

import copy
import os
import random
import shutil
import subprocess
import sys
import tempfile
import traceback

from hypothesis import strategies as st

import vlib
from vlib import emb

from compiler.back_end.cpp import header_generator
from compiler.front_end import glue
from compiler.util import ir_data, ir_data_fields, ir_data_utils, parser_types

PROPERTY = "C18"

RULE = (
    "cases = IRs produced by the front end: final IR of accepted source sets (repository corpus, accepted corpus mutations, model-generated modules) and the "
    "intermediate IR at every --debug-stop-before-step; oracle = from_json(to_json(ir)) == ir under == and under a type-strict field-by-field walker, "
    "to_json idempotent, generate_header(re-read IR) == generate_header(IR) byte for byte; a sample through emboss_front_end | emboss_codegen_cpp vs embossc. "
    "Non-trivial = IR with >= 1 structure with >= 2 fields; distinct by hash of the JSON text."
)

STEPS = [
    None,
    "desugar",
    "resolve_symbols",
    "find_dependency_cycles",
    "set_dependency_order",
    "resolve_field_references",
    "annotate_types",
    "check_types",
    "check_early_constraints",
    "compute_constants",
    "normalize_and_verify",
    "check_constraints",
    "set_write_methods",
]


def strict_diff(a, b, path="ir"):
    """First difference between two IR values, comparing types strictly."""
    if type(a) is not type(b):
        # SourceLocation/SourcePosition are namedtuple subclasses
        return "%s: type %s vs %s (%r vs %r)" % (path, type(a).__name__, type(b).__name__, a, b)
    if isinstance(a, ir_data.Message):
        for name, spec in ir_data_fields.field_specs(type(a)).items():
            va, vb = getattr(a, name, None), getattr(b, name, None)
            d = strict_diff(va, vb, path + "." + name)
            if d:
                return d
        return None
    if isinstance(a, (list, tuple)) and not isinstance(a, (parser_types.SourceLocation, parser_types.SourcePosition)):
        if len(a) != len(b):
            return "%s: length %d vs %d" % (path, len(a), len(b))
        for i, (x, y) in enumerate(zip(a, b)):
            d = strict_diff(x, y, "%s[%d]" % (path, i))
            if d:
                return d
        return None
    if isinstance(a, parser_types.SourceLocation):
        for f in ("start", "end", "is_disjoint_from_parent", "is_synthetic"):
            x, y = getattr(a, f), getattr(b, f)
            if type(x) is not type(y) or x != y:
                return "%s.%s: %r vs %r" % (path, f, x, y)
        return None
    if a != b:
        return "%s: %r vs %r" % (path, a, b)
    return None


def features(js):
    f = []
    if '"is_synthetic": true' in js or "is_synthetic" in js:
        f.append("synthetic-location")
    import re

    if re.search(r'"value": "-?\d{19,}"', js):
        f.append("integer>=2^63")
    if '"constant"' in js and '"function"' in js and '"field_reference"' in js:
        f.append("oneof-variety")
    if '"runtime_parameter"' in js:
        f.append("parameters")
    if '"enumeration"' in js:
        f.append("enum")
    return f


def check_ir(stats, ir, label, key, want_header):
    """label: class; returns nothing, records into stats."""
    ser = ir_data_utils.IrDataSerializer
    case = {"files": key["files"], "main": key["main"], "step": key["step"]}
    try:
        js = ser(ir).to_json()
        ir2 = ser.from_json(ir_data.EmbossIr, js)
        js2 = ser(ir2).to_json()
    except Exception:
        stats.fail(dict(kind="serializer-exception", **emb.exc_signature()), case, traceback.format_exc())
        stats.case([label, key], False, [label, "exception"])
        return
    nstruct = js.count('"structure"')
    nontrivial = nstruct >= 1 and js.count('"location"') >= 2
    stats.case(js, nontrivial, [label, "step=%s" % key["step"]] + features(js), sample={"class": label, "main": key["main"], "step": key["step"], "json_bytes": len(js), "json_head": js[:200]})
    if ir2 != ir:
        d = strict_diff(ir, ir2) or "== reports inequality, walker finds no difference"
        stats.fail({"kind": "roundtrip-not-equal"}, case, d)
    else:
        d = strict_diff(ir, ir2)
        if d:
            stats.fail({"kind": "roundtrip-type-or-field-drift", "where": d.split(":")[0].split(".")[-1]}, case, d)
    if js2 != js:
        i = next((i for i in range(min(len(js), len(js2))) if js[i] != js2[i]), min(len(js), len(js2)))
        stats.fail({"kind": "to_json-not-idempotent"}, case, "differs at byte %d: %r vs %r" % (i, js[max(0, i - 60) : i + 60], js2[max(0, i - 60) : i + 60]))
    if want_header:
        try:
            h1, e1 = header_generator.generate_header(ir_data_utils.copy(ir))
            h2, e2 = header_generator.generate_header(ir2)
            stats.classes["header-compared"] += 1
            if (h1, bool(e1)) != (h2, bool(e2)):
                la, lb = (h1 or "").split("\n"), (h2 or "").split("\n")
                k = next((i for i in range(min(len(la), len(lb))) if la[i] != lb[i]), min(len(la), len(lb)))
                stats.fail({"kind": "header-differs-after-roundtrip"}, case, "line %d: in-memory %r vs re-read %r" % (k + 1, la[k] if k < len(la) else None, lb[k] if k < len(lb) else None))
        except Exception:
            stats.fail(dict(kind="header-exception", **emb.exc_signature()), case, traceback.format_exc())


def check_source_set(stats, files, main, label, steps):
    for step in steps:
        r = emb.compile_files(files, main, stop_before=step, gen_header=False)
        if r.exc or r.errors or r.ir is None:
            stats.discards += 1
            if step is None:
                return False
            continue
        check_ir(stats, r.ir, label, {"files": files, "main": main, "step": step}, want_header=(step is None))
    return True


def same_name_import_set(rnd):
    """A main module and an imported one that define types (and enum values, fields) of the SAME
    names: canonical names then differ only in their module_file."""
    names = rnd.sample(["Header", "Kind", "Flags", "Body", "Item"], 3)
    s1, e1, b1 = names

    def mod(ns, extra=""):
        return (
            '[$default byte_order: "LittleEndian"]\n[(cpp) namespace: "%s"]\n' % ns
            + "enum %s:\n  AA = %d\n  BB = %d\n" % (e1, rnd.randrange(0, 5), rnd.randrange(5, 200))
            + "bits %s:\n  0 [+4]  UInt  lo\n  4 [+4]  %s  hi\n" % (b1, e1)
            + "struct %s:\n  0 [+1]  UInt  a\n  1 [+1]  %s  k\n  2 [+1]  %s  b\n  let twice = a * 2\n%s" % (s1, e1, b1, extra)
        )

    main = 'import "o.emb" as o\n' + mod("vm::main", "  4 [+3]  o.%s  other\n  if other.k == o.%s.AA:\n    8 [+1]  o.%s  ob\n  let ot = other.twice + o.%s.twice\n" % (s1, e1, b1, s1)).replace("let twice = a * 2", "let twice = 7")
    other = mod("vm::other").replace("let twice = a * 2", "let twice = 9")
    return {"m.emb": main, "o.emb": other}, "m.emb"


def two_program_path(stats, files, main, options=()):
    """emboss_front_end --output-file | emboss_codegen_cpp --input-file  vs  embossc (same options)."""
    options = list(options)
    d = tempfile.mkdtemp(prefix="verif_c18_")
    try:
        for name, text in files.items():
            p = os.path.join(d, name)
            os.makedirs(os.path.dirname(p), exist_ok=True)
            with open(p, "w") as f:
                f.write(text)
        env = dict(os.environ, PYTHONPATH=emb.REPO)
        py = sys.executable
        # the three programs are three processes: nothing but the files passes between them, so each may
        # as well run under its own string-hash seed
        hs = sum(len(t) for t in files.values())
        # the main file may be named in more than one way; both routes get the same spelling
        os.makedirs(os.path.join(d, "sub"), exist_ok=True)
        main = [main, "./" + main, "sub/../" + main, main, ".//" + main][hs % 5]
        env_a = dict(env, PYTHONHASHSEED=str(1 + hs % 5))
        env_b = dict(env, PYTHONHASHSEED=str(7 + hs % 3))
        a = subprocess.run([py, "-m", "compiler.front_end.emboss_front_end", "--import-dir", d, "--output-file", os.path.join(d, "ir.json"), main], cwd=d, env=env_a, capture_output=True, text=True, timeout=600)
        b = subprocess.run([py, "-m", "compiler.back_end.cpp.emboss_codegen_cpp", "--input-file", os.path.join(d, "ir.json"), "--output-file", os.path.join(d, "two.h")] + options, cwd=d, env=env_b, capture_output=True, text=True, timeout=600)
        c = subprocess.run([py, os.path.join(emb.REPO, "embossc"), "--import-dir", d, "--output-path", d, "--output-file", "one.h"] + options + [main], cwd=d, env=env, capture_output=True, text=True, timeout=600)
        case = {"files": files, "main": main, "step": "cli", "options": options}
        stats.case(["cli", files, main, options], True, ["cli-two-program"] + ["option:" + o for o in options] + (["main-file-spelled:" + main.rsplit("/", 1)[0] + "/"] if "/" in main and (main.startswith(".") or main.startswith("sub/..")) else []), sample=None)
        if a.returncode or b.returncode or c.returncode:
            # a module may be rejected by the front end or only by the back end (e.g. a bad enum_case):
            # the two paths agree when either stage of the split path fails exactly when embossc fails
            if bool(a.returncode or b.returncode) != bool(c.returncode):
                stats.fail({"kind": "cli-exit-codes"}, case, "front=%d back=%d embossc=%d\n%s\n%s\n%s" % (a.returncode, b.returncode, c.returncode, a.stderr[-500:], b.stderr[-500:], c.stderr[-500:]))
            return
        one = open(os.path.join(d, "one.h")).read()
        two = open(os.path.join(d, "two.h")).read()
        if one != two:
            la, lb = one.split("\n"), two.split("\n")
            k = next((i for i in range(min(len(la), len(lb))) if la[i] != lb[i]), min(len(la), len(lb)))
            stats.fail({"kind": "two-program-header-differs"}, case, "line %d: embossc %r vs front|back %r" % (k + 1, la[k] if k < len(la) else None, lb[k] if k < len(lb) else None))
    finally:
        shutil.rmtree(d, ignore_errors=True)


def shard(idx, seed, n, cli_n, all_steps):
    from props import c16_total
    from embgen import textmut

    stats = vlib.Stats()
    sets = c16_total.corpus_sets()
    try:
        from embgen import semgen
    except ImportError:
        semgen = None
    # corpus files are split across shards, every step
    for i, (files, main) in enumerate(sets):
        if i % 16 == idx:
            check_source_set(stats, files, main, "corpus", STEPS)
    count = [0]

    def body(case_seed):
        rnd = random.Random(case_seed)
        if rnd.random() < 0.12:
            files, main = same_name_import_set(rnd)
            label = "same-name-import"
        elif rnd.random() < 0.25:
            files, main = {"m.emb": rnd.choice(emb.test_snippets())}, "m.emb"
            label = "test-snippet"
        elif semgen is not None and rnd.random() < 0.7:
            files, main = semgen.valid_source_set(rnd)
            label = "model"
        else:
            files, main = rnd.choice(sets)
            files = dict(files)
            files[main] = textmut.mutate(rnd, files[main], n_mut=rnd.choice([1, 1, 2]))
            label = "corpus-mutation"
        steps = STEPS if all_steps else [None, rnd.choice(STEPS[1:])]
        ok = check_source_set(stats, files, main, label, steps)
        if ok and label != "corpus" and count[0] < cli_n:
            count[0] += 1
            two_program_path(stats, files, main, [(), ("--no-cc-enum-traits",), ("--cc-enum-traits",)][(idx + count[0]) % 3])

    vlib.hyp_run(st.integers(0, 2**63), body, n, seed=seed * 1039 + idx)
    if idx == 15:
        # a module with many imports (one of them twice, one through a diamond), every run
        from props import c17_determinism as C17

        files, main = [s_ for s_ in C17.literal_sets() if "omega_long_name.emb" in s_[0]][0]
        if check_source_set(stats, files, main, "many-imports", STEPS):
            two_program_path(stats, files, main, ())
    if idx < cli_n:
        files, main = sets[(seed + idx * 7) % len(sets)]
        if check_source_set(vlib.Stats(), files, main, "corpus", [None]):
            two_program_path(stats, files, main, [(), ("--no-cc-enum-traits",), ("--cc-enum-traits",)][idx % 3])
    return stats


def run(ctx):
    ctx.rule = RULE
    ctx.assumptions = [
        "IR equality is the IR classes' own == plus an independent type-strict walker over ir_data_fields.field_specs",
        "header comparison runs generate_header on a deep copy for the in-memory side because header generation mutates the IR",
    ]
    ctx.stats = vlib.run_shards(shard, 16, seed=ctx.seed, n=ctx.pick(40, 600), cli_n=ctx.pick(1, 3), all_steps=not ctx.quick)
    return ctx.finish(None)


def replay(ctx, data):
    c = data["case"]
    st_ = vlib.Stats()
    if c.get("step") == "cli":
        two_program_path(st_, c["files"], c["main"], c.get("options", ()))
    else:
        check_source_set(st_, c["files"], c["main"], "replay", [c["step"]])
    for f in st_.failures[:5]:
        print("still failing:", f["sig"], str(f["detail"])[:600])
    return not st_.failures
