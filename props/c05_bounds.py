"""C05 — inferred integer bounds and alignments are sound, and tight where documented."""

import itertools
import random
import re

from hypothesis import strategies as st

import vlib
from vlib import emb

from compiler.util import ir_data, ir_util, traverse_ir

PROPERTY = "C05"

RULE = (
    "cases = (expression node of an accepted module, environment): modules whose virtual fields, offsets, sizes and conditions are random integer/boolean "
    "expressions (depth <= 6) over fields of every integer type and width (1..64 bits, Int:1, partial-nibble Bcd), parameters, enum comparisons, $present, "
    "nested $upper_bound/$lower_bound, $max of up to 6 args, constants up to +-2^64, other virtual fields; every Expression node of the compiler's IR is "
    "evaluated by an independent evaluator under environments (each leaf in {min, max, 0, +-1, mid, random}; all 2^k corners when k <= 6) and must satisfy "
    "min <= v <= max, v = r (mod m), constants exact, bound functions bounding; every run-time operator's operands and result must jointly fit int64 or uint64; "
    "tightness (both extremes attained) on the variable-once fragment of + - * $max ?:. Non-trivial = non-constant expression with >= 2 leaves; distinct by (expression text, environment)."
)

I64 = (-(2**63), 2**63 - 1)
U64 = (0, 2**64 - 1)


class Leaf(object):
    def __init__(self, name, kind, bits, decl):
        self.name, self.kind, self.bits, self.decl = name, kind, bits, decl

    def range(self):
        if self.kind == "UInt":
            return 0, 2**self.bits - 1
        if self.kind == "Int":
            return -(2 ** (self.bits - 1)), 2 ** (self.bits - 1) - 1
        if self.kind == "Bcd":
            full, part = divmod(self.bits, 4)
            return 0, (2**part) * 10**full - 1
        if self.kind == "Flag":
            return 0, 1
        raise ValueError(self.kind)


class ExprGen(object):
    def __init__(self, rnd):
        self.rnd = rnd
        self.leaves = []
        self.bools = []
        self.virtuals = []  # (name, type)
        self.lines = []

    def make_leaves(self):
        r = self.rnd
        bits_members = []
        pos = 0
        n = 0
        profile = r.choice(["small", "small", "mixed", "wide"])
        for _ in range(r.choice([3, 4, 6, 8])):
            kind = r.choice(["UInt", "UInt", "Int", "Int", "Bcd"])
            if profile == "small":
                w = r.choice([1, 2, 3, 4, 5, 7, 8, 9, 12, 16])
            elif profile == "mixed":
                w = r.choice([1, 2, 4, 8, 13, 16, 24, 31, 32, 33])
            else:
                w = r.choice([8, 16, 31, 32, 33, 48, 62, 63, 64])
            if pos + w > 64:
                break
            n += 1
            name = "%s%d_%d" % (kind[0].lower(), w, n)
            bits_members.append("    %d [+%d]  %s  %s" % (pos, w, kind, name))
            self.leaves.append(Leaf(name, kind, w, None))
            pos += w
        for i in range(r.choice([1, 2])):
            if pos + 1 <= 64:
                name = "fl%d" % i
                bits_members.append("    %d [+1]  Flag  %s" % (pos, name))
                self.bools.append(name)
                pos += 1
        total = ((pos + 7) // 8) * 8
        if pos < total:
            bits_members.append("    %d [+%d]  UInt  pad_" % (pos, total - pos))
        self.lines.append("  0 [+%d]  bits:" % (total // 8))
        self.lines += bits_members
        off = total // 8
        for _ in range(r.choice([1, 2, 3])):
            kind = r.choice(["UInt", "Int"])
            nb = r.choice([1, 1, 2, 2, 4, 8]) if profile != "small" else r.choice([1, 1, 2])
            n += 1
            name = "%s%d_%d" % (kind[0].lower(), nb * 8, n)
            self.lines.append("  %d [+%d]  %s  %s" % (off, nb, kind, name))
            self.leaves.append(Leaf(name, kind, nb * 8, None))
            off += nb
        self.lines.append("  %d [+1]  Ee  en" % off)
        off += 1
        # two fields of one structure type: members of equal name reached through different fields
        self.sub_type = None
        if r.random() < 0.5:
            members = [("v", r.choice(["Int", "UInt"]), 1), ("w", r.choice(["Int", "UInt"]), r.choice([1, 2])), ("x", "Int", r.choice([1, 2, 4]))]
            sub_lines = ["struct Sub:"]
            spos = 0
            for mn, mk, nb in members:
                sub_lines.append("  %d [+%d]  %s  %s" % (spos, nb, mk, mn))
                spos += nb
            self.sub_type = "\n".join(sub_lines) + "\n"
            for fn_ in ("sa", "sb"):
                self.lines.append("  %d [+%d]  Sub  %s" % (off, spos, fn_))
                off += spos
                for mn, mk, nb in members:
                    self.leaves.append(Leaf("%s.%s" % (fn_, mn), mk, nb * 8, None))
        self.end = off
        self.params = []
        if r.random() < 0.5:
            self.params.append(Leaf("pa", "UInt", 8, None))
        if r.random() < 0.3:
            self.params.append(Leaf("pb", "Int", 16, None))
        self.leaves += self.params

    def const(self):
        r = self.rnd
        k = r.random()
        if k < 0.75:
            return r.choice([0, 1, 2, 3, 4, 7, 8, 10, 16, 100, 255, 256])
        if k < 0.92:
            return r.choice([2**15, 2**16 - 1, 2**31, 2**32 - 1, 2**32, 10**9])
        return r.choice([2**62, 2**63 - 1, 2**63, 2**64 - 1, 2**64, 2**40])

    def int_expr(self, depth, once=None):
        """once: list of leaf names still unused (tight fragment) or None."""
        r = self.rnd
        if depth <= 0 or r.random() < 0.22:
            k = r.random()
            if once is not None:
                if once and k < 0.8:
                    return once.pop(r.randrange(len(once)))
                return str(r.choice([0, 1, 2, 3, 5, 16]))
            if k < 0.6:
                return r.choice(self.leaves).name
            if k < 0.7 and self.virtuals:
                vs = [v for v, t in self.virtuals if t == "int"]
                if vs:
                    return r.choice(vs)
            c = self.const()
            return str(c)
        k = r.random()
        a = self.int_expr(depth - 1, once)
        if k < 0.3:
            return "(%s + %s)" % (a, self.int_expr(depth - 1, once))
        if k < 0.45:
            return "(%s - %s)" % (a, self.int_expr(depth - 1, once))
        if k < 0.6:
            b = self.int_expr(depth - 1, once) if r.random() < 0.4 else str(r.choice([0, 1, 2, 3, 4, 8, 10, -1, -3]))
            if b.startswith("-"):
                b = "(%s)" % b
            return "(%s * %s)" % (a, b)
        if k < 0.75:
            args = [a] + [self.int_expr(depth - 1, once) for _ in range(r.choice([0, 1, 1, 2, 5]))]
            return "$max(%s)" % ", ".join(args)
        if k < 0.9:
            if once is not None:
                c = r.choice(self.bools) if self.bools else "true"
                if c in getattr(self, "_used_flags", set()):
                    c = "true"
                else:
                    self._used_flags.add(c)
            else:
                c = self.bool_expr(depth - 1)
            return "(%s ? %s : %s)" % (c, a, self.int_expr(depth - 1, once))
        if once is None:
            return "%s(%s)" % (r.choice(["$upper_bound", "$lower_bound"]), a)
        return a

    def bool_expr(self, depth):
        r = self.rnd
        if depth <= 0 or r.random() < 0.25:
            k = r.random()
            if self.bools and k < 0.4:
                return r.choice(self.bools)
            if k < 0.55:
                return "$present(%s)" % r.choice(self.leaves).name if not self.leaves[0].name.startswith("p") else "true"
            if k < 0.75:
                return "en == Ee.%s" % r.choice(["AA", "BB"])
            return r.choice(["true", "false"])
        k = r.random()
        if k < 0.06:
            # mixed-signedness comparison at the 64-bit boundary: must be rejected by the gate
            wide = [l.name for l in self.leaves if l.kind == "UInt" and l.bits >= 64] + ["9223372036854775808", "18446744073709551615"]
            signed = [l.name for l in self.leaves if l.kind == "Int"] + ["(0 - %s)" % l.name for l in self.leaves if l.kind == "UInt" and l.bits <= 16]
            if signed:
                a, b = r.choice(wide), r.choice(signed)
                if r.random() < 0.5:
                    a, b = b, a
                return "(%s %s %s)" % (a, r.choice(["==", "!=", "<", "<=", ">", ">="]), b)
        if k < 0.5:
            return "(%s %s %s)" % (self.int_expr(depth - 1), r.choice(["==", "!=", "<", "<=", ">", ">="]), self.int_expr(depth - 1))
        if k < 0.8:
            return "(%s %s %s)" % (self.bool_expr(depth - 1), r.choice(["&&", "||"]), self.bool_expr(depth - 1))
        return "(%s ? %s : %s)" % (self.bool_expr(depth - 1), self.bool_expr(depth - 1), self.bool_expr(depth - 1))

    def module(self):
        r = self.rnd
        self.make_leaves()
        body = list(self.lines)
        tight = []
        for i in range(r.choice([2, 3, 5, 7])):
            name = "v%d" % i
            d = r.choice([1, 2, 3, 4, 6])
            if r.random() < 0.3:
                self._used_flags = set()
                e = self.int_expr(d, once=[l.name for l in r.sample(self.leaves, min(len(self.leaves), 5))])
                tight.append(name)
                self.virtuals.append((name, "int"))
            elif r.random() < 0.25:
                e = self.bool_expr(d)
                self.virtuals.append((name, "bool"))
            else:
                e = self.int_expr(d)
                self.virtuals.append((name, "int"))
            body.append("  let %s = %s" % (name, e))
        # products of members of equal name reached through different fields, and true squares
        if self.sub_type:
            for i in range(r.choice([1, 2, 3])):
                m1, m2 = r.choice("vwx"), r.choice("vwx")
                f1, f2 = r.choice(["sa", "sb"]), r.choice(["sa", "sb"])
                if r.random() < 0.6:
                    m2 = m1
                name = "cp%d" % i
                body.append("  let %s = %s.%s %s %s.%s" % (name, f1, m1, r.choice(["*", "*", "*", "-", "+"]), f2, m2))
                self.virtuals.append((name, "int"))
        # an offset / size / condition position
        if r.random() < 0.6:
            small = [l.name for l in self.leaves if l.kind == "UInt" and l.bits <= 16]
            if small:
                a = r.choice(small)
                body.append("  if %s:" % self.bool_expr(2))
                body.append("    %s + %d [+%s * %d]  UInt:8[]  dyn" % (a, self.end, r.choice(small), r.choice([1, 2, 4])))
        params = ""
        if self.params:
            params = "(%s)" % ", ".join("%s: %s:%d" % (p.name, p.kind, p.bits) for p in self.params)
        text = '[$default byte_order: "LittleEndian"]\nenum Ee:\n  AA = 1\n  BB = 2\n%sstruct Foo%s:\n%s\n' % (self.sub_type or "", params, "\n".join(body))
        return text, tight


# ---------------------------------------------------------------------------
# independent evaluator over the compiler's IR
# ---------------------------------------------------------------------------

class Unknown(Exception):
    pass


def num(s):
    if s in ("infinity", "-infinity"):
        return float("inf") if s == "infinity" else float("-inf")
    return int(s)


class Evaluator(object):
    def __init__(self, ir, leaves):
        self.ir = ir
        self.leaves = {l.name: l for l in leaves}
        self.depth = 0

    def ev(self, e, rho):
        w = e.which_expression
        if w == "constant":
            return int(e.constant.value)
        if w == "boolean_constant":
            return bool(e.boolean_constant.value)
        if w == "constant_reference":
            obj = ir_util.find_object(e.constant_reference, self.ir)
            if isinstance(obj, ir_data.EnumValue):
                return self.ev(obj.value, rho)
            return self.field_value(obj, rho)
        if w == "field_reference":
            path = e.field_reference.path
            if len(path) > 1:
                # a member reached through a field (sa.v): distinct from the same member of another field (sb.v)
                key = ".".join(p_.canonical_name.object_path[-1] for p_ in path)
                if key in rho:
                    return rho[key]
                # members of anonymous bits are leaves named by their own (unique) name
            obj = ir_util.find_object(path[-1], self.ir)
            return self.field_value(obj, rho)
        if w == "function":
            return self.fn(e, rho)
        raise Unknown(w)

    def field_value(self, obj, rho):
        name = obj.name.name.text
        if isinstance(obj, ir_data.RuntimeParameter):
            return rho[name]
        if ir_util.field_is_virtual(obj):
            return self.ev(obj.read_transform, rho)
        if name in rho:
            return rho[name]
        raise Unknown(name)

    def fn(self, e, rho):
        F = ir_data.FunctionMapping
        f = e.function.function
        args = e.function.args
        if f == F.PRESENCE:
            raise Unknown("presence")
        if f in (F.UPPER_BOUND, F.LOWER_BOUND):
            # the compiler folds these to constants; the evaluator takes the claimed
            # constant and `check_bound_fn` verifies it bounds the argument
            return num(e.type.integer.maximum_value)
        if f == F.CHOICE:
            return self.ev(args[1], rho) if self.ev(args[0], rho) else self.ev(args[2], rho)
        if f == F.AND:
            return bool(self.ev(args[0], rho)) and bool(self.ev(args[1], rho))
        if f == F.OR:
            return bool(self.ev(args[0], rho)) or bool(self.ev(args[1], rho))
        vs = [self.ev(a, rho) for a in args]
        if f == F.ADDITION:
            return vs[0] + vs[1]
        if f == F.SUBTRACTION:
            return vs[0] - vs[1]
        if f == F.MULTIPLICATION:
            return vs[0] * vs[1]
        if f == F.EQUALITY:
            return vs[0] == vs[1]
        if f == F.INEQUALITY:
            return vs[0] != vs[1]
        if f == F.LESS:
            return vs[0] < vs[1]
        if f == F.LESS_OR_EQUAL:
            return vs[0] <= vs[1]
        if f == F.GREATER:
            return vs[0] > vs[1]
        if f == F.GREATER_OR_EQUAL:
            return vs[0] >= vs[1]
        if f == F.MAXIMUM:
            return max(vs)
        raise Unknown(str(f))


def environments(rnd, leaves, bools, n_random):
    """Corner environments (all 2^k over leaves and flags when k <= 9) plus special and random values."""
    names = [l.name for l in leaves]
    ranges = {l.name: l.range() for l in leaves}
    for b in bools:
        ranges[b] = (False, True)
    allnames = names + list(bools)
    envs = []
    k = len(allnames)
    if k <= 9:
        for combo in itertools.product([0, 1], repeat=k):
            envs.append({n: ranges[n][c] for n, c in zip(allnames, combo)})
    else:
        for _ in range(96):
            envs.append({n: ranges[n][rnd.randrange(2)] for n in allnames})
        envs.append({n: ranges[n][0] for n in allnames})
        envs.append({n: ranges[n][1] for n in allnames})
    for _ in range(n_random):
        env = {}
        for n in names:
            lo, hi = ranges[n]
            c = rnd.random()
            if c < 0.2:
                env[n] = lo
            elif c < 0.4:
                env[n] = hi
            elif c < 0.55:
                env[n] = min(hi, max(lo, rnd.choice([0, 1, -1, 2, 3])))
            elif c < 0.65:
                env[n] = (lo + hi) // 2
            else:
                env[n] = rnd.randint(lo, hi)
        for b in bools:
            env[b] = rnd.random() < 0.5
        envs.append(env)
    for i, e in enumerate(envs):
        e["en"] = [1, 2, 0, 255][i % 4]
    return envs, k <= 9


def expr_text(e, text):
    loc = e.source_location
    if loc is None or loc.is_synthetic or loc.start.line != loc.end.line or loc.start.line == 0:
        return None
    lines = text.split("\n")
    if loc.start.line > len(lines):
        return None
    return lines[loc.start.line - 1][loc.start.column - 1 : loc.end.column - 1]


def check_module(stats, rnd, text, leaves, bools, tight, n_random):
    r = emb.compile_files({"m.emb": text}, gen_header=False)
    case = {"text": text}
    if r.exc:
        stats.fail(dict(kind="exception", **r.exc_sig), case, r.exc_text)
        return
    if not r.accepted:
        stats.discards += 1
        stats.classes["rejected:" + re.sub(r"[0-9-]+", "N", r.errors[0][0].message.split("\n")[0])[:60]] += 1
        return
    ir = r.ir
    ev = Evaluator(ir, leaves)
    envs, all_corners = environments(rnd, leaves, bools, n_random)
    nodes = []

    runtime = {}

    def walk(e, rt):
        nodes.append(e)
        runtime[id(e)] = rt
        if e.which_expression == "function":
            # sub-expressions of a constant-typed operator are folded at compile time
            child_rt = rt and not ir_util.is_constant_type(e.type)
            for a in e.function.args:
                walk(a, child_rt)

    def collect(expression):
        walk(expression, True)

    main = [m for m in ir.module if m.source_file_name == "m.emb"][0]
    traverse_ir.fast_traverse_ir_top_down(main, [ir_data.Expression], collect, skip_descendants_of={ir_data.Expression, ir_data.Attribute})
    nfail = 0
    for e in nodes:
        t = e.type.which_type
        if t not in ("integer", "boolean"):
            continue
        et = expr_text(e, text) or "<synthesized %s>" % e.which_expression
        vals = []
        try:
            for rho in envs:
                vals.append(ev.ev(e, rho))
        except Unknown:
            stats.classes["node-not-evaluated"] += 1
            continue
        leaves_in = len(set(re.findall(r"[a-z]+[0-9]+_[0-9]+|pa|pb|fl[0-9]|s[ab]\.[vwx]", et)))
        nonconst = len(set(vals)) > 1
        stats.evaluations += len(envs) - 1
        stats.case([et, text], nonconst and leaves_in >= 2, ["node:" + (e.which_expression if e.which_expression != "function" else str(e.function.function).split(".")[-1]), t], sample={"expression": et, "inferred": (dict(min=e.type.integer.minimum_value, max=e.type.integer.maximum_value, mod=e.type.integer.modulus, rem=e.type.integer.modular_value) if t == "integer" else {"value": e.type.boolean.value if e.type.boolean.has_field("value") else None}), "values_seen": sorted(set(int(v) for v in vals))[:6]})
        if nfail > 6:
            continue
        # 64-bit gate by evaluation: run-time operators only (comparisons included)
        def gate():
            nonlocal nfail
            if e.which_expression == "function" and runtime.get(id(e)) and not ir_util.is_constant_type(e.type):
                try:
                    group = list(vals)
                    for a in e.function.args:
                        if a.type.which_type == "integer":
                            group += [ev.ev(a, rho) for rho in envs]
                    gmin, gmax = min(group), max(group)
                    if not ((I64[0] <= gmin and gmax <= I64[1]) or (U64[0] <= gmin and gmax <= U64[1])):
                        nfail += 1
                        stats.fail({"kind": "64-bit-gate-unsound", "node": node_kind(e)}, dict(case, expression=et), "operands and result of %s span [%d, %d], which fits neither int64 nor uint64" % (et, gmin, gmax))
                except Unknown:
                    pass

        gate()
        if t == "boolean":
            if e.type.boolean.has_field("value"):
                bad = [v for v in vals if bool(v) != e.type.boolean.value]
                if bad:
                    nfail += 1
                    stats.fail({"kind": "boolean-constant-wrong", "node": e.which_expression}, dict(case, expression=et), "compiler says %s is constantly %s, but it evaluates to %s" % (et, e.type.boolean.value, bad[0]))
            continue
        it = e.type.integer
        lo, hi = num(it.minimum_value), num(it.maximum_value)
        mod = it.modulus
        rem = num(it.modular_value)
        for v, rho in zip(vals, envs):
            if not (lo <= v <= hi):
                nfail += 1
                stats.fail({"kind": "value-outside-inferred-range", "node": node_kind(e), "side": "below" if v < lo else "above"}, dict(case, expression=et, env={k: int(x) for k, x in rho.items()}), "%s = %d under %s, inferred range [%s, %s]" % (et, v, _short(rho), it.minimum_value, it.maximum_value))
                break
            if mod == "infinity":
                if v != rem:
                    nfail += 1
                    stats.fail({"kind": "constant-wrong", "node": node_kind(e)}, dict(case, expression=et, env={k: int(x) for k, x in rho.items()}), "%s is inferred constant %s but evaluates to %d under %s" % (et, it.modular_value, v, _short(rho)))
                    break
            else:
                m = int(mod)
                if m <= 0 or (v - rem) % m != 0:
                    nfail += 1
                    stats.fail({"kind": "modular-constraint-wrong", "node": node_kind(e)}, dict(case, expression=et, env={k: int(x) for k, x in rho.items()}), "%s = %d under %s, inferred %s (mod %s)" % (et, v, _short(rho), it.modular_value, mod))
                    break
        # bound functions must bound their argument
        if e.which_expression == "function" and e.function.function in (ir_data.FunctionMapping.UPPER_BOUND, ir_data.FunctionMapping.LOWER_BOUND):
            try:
                avals = [ev.ev(e.function.args[0], rho) for rho in envs]
                claimed = vals[0]
                up = e.function.function == ir_data.FunctionMapping.UPPER_BOUND
                if (up and max(avals) > claimed) or (not up and min(avals) < claimed):
                    nfail += 1
                    stats.fail({"kind": "bound-function-not-a-bound", "which": "upper" if up else "lower"}, dict(case, expression=et), "%s = %s but the argument takes value %d" % (et, claimed, max(avals) if up else min(avals)))
            except Unknown:
                pass
    # tightness on the variable-once fragment
    struct = [t for t in main.type if t.name.name.text == "Foo"][0]
    for f in struct.structure.field:
        if f.name.name.text in tight and f.read_transform.type.which_type == "integer":
            e = f.read_transform
            try:
                vals = [ev.ev(e, rho) for rho in envs]
            except Unknown:
                continue
            it = e.type.integer
            lo, hi = num(it.minimum_value), num(it.maximum_value)
            names = set(l.name for l in leaves)
            et = expr_text(e, text) or ""
            used = [n for n in names if re.search(r"\b%s\b" % re.escape(n), et)]
            if len(used) > 6 or "- " in et.replace("(- ", "") and False:
                continue
            stats.classes["tightness-checked"] += 1
            if (lo != float("-inf") and min(vals) != lo) or (hi != float("inf") and max(vals) != hi):
                # only claimed where every variable occurs once and no subtraction/multiplication of two variables hides correlation
                if all(et.count(n) == 1 for n in used) and all_corners:
                    stats.fail({"kind": "bounds-not-tight"}, dict(case, expression=et), "%s: inferred [%s, %s], attained over all corners [%d, %d]" % (et, it.minimum_value, it.maximum_value, min(vals), max(vals)))


def type_signature(module):
    """Inferred type of every expression of one module of an IR, in traversal order."""
    out = []

    def one(expression):
        t = expression.type
        if t.which_type == "integer":
            i = t.integer
            out.append(("int", i.minimum_value, i.maximum_value, i.modulus, i.modular_value))
        elif t.which_type == "boolean":
            out.append(("bool", t.boolean.value if t.boolean.has_field("value") else None))
        else:
            out.append((t.which_type,))

    traverse_ir.fast_traverse_ir_top_down(module, [ir_data.Expression], one)
    return out


def check_import_isolation(stats, text_a, text_b):
    """What the compiler infers about a module's expressions is a fact about that module: it is the
    same whether the module is compiled alone or together with another module that uses the same
    structure, field and virtual-field names for different things."""
    alone = {}
    for name, text in (("a", text_a), ("b", text_b)):
        r = emb.compile_files({"m.emb": text}, gen_header=False)
        if r.exc or not r.accepted:
            return
        alone[name] = type_signature([m for m in r.ir.module if m.source_file_name == "m.emb"][0])
    files = {"m.emb": 'import "imp.emb" as imp\n' + text_a, "imp.emb": text_b}
    r = emb.compile_files(files, gen_header=False)
    case = {"files": files, "main": "m.emb"}
    if r.exc:
        stats.fail(dict(kind="exception", **r.exc_sig), case, r.exc_text)
        return
    stats.case(["import-isolation", text_a, text_b], True, ["import-isolation"], sample=None)
    if not r.accepted:
        stats.fail({"kind": "import-changes-acceptance"}, case, "two modules accepted on their own are rejected when one imports the other (without using it): %s" % r.errors[0][0].message.split("\n")[0])
        return
    for name, fname in (("a", "m.emb"), ("b", "imp.emb")):
        got = type_signature([m for m in r.ir.module if m.source_file_name == fname][0])
        if got != alone[name]:
            k = next((i for i in range(min(len(got), len(alone[name]))) if got[i] != alone[name][i]), min(len(got), len(alone[name])))
            stats.fail({"kind": "inference-depends-on-other-module", "module": "importer" if name == "a" else "imported"}, case, "expression #%d of %s: inferred %r when compiled alone, %r when compiled together with a module that reuses its names" % (k, fname, alone[name][k] if k < len(alone[name]) else None, got[k] if k < len(got) else None))


def node_kind(e):
    if e.which_expression == "function":
        return str(e.function.function).split(".")[-1]
    return e.which_expression


def _short(rho):
    return "{" + ", ".join("%s=%s" % (k, int(v)) for k, v in sorted(rho.items()) if k != "en") + "}"


def shard(idx, seed, n, n_random):
    stats = vlib.Stats()

    def body(case_seed):
        rnd = random.Random(case_seed)
        g = ExprGen(rnd)
        text, tight = g.module()
        check_module(stats, rnd, text, g.leaves, g.bools, tight, n_random)
        if case_seed % 3 == 0:
            g2 = ExprGen(random.Random(case_seed + 1))
            text2, _ = g2.module()
            check_import_isolation(stats, text, text2)

    vlib.hyp_run(st.integers(0, 2**63), body, n, seed=seed * 1087 + idx)
    stats.samples = stats.samples[:4]
    return stats


def run(ctx):
    ctx.rule = RULE
    ctx.assumptions = [
        "leaf ranges are those of the physical types (UInt/Int/Bcd widths, parameters); [requires] is not used to narrow ranges",
        "nodes containing $present are not evaluated (existence is outside the value environment)",
        "the 64-bit gate is judged on sampled values: a sampled counter-example is a violation, absence of one is not a proof",
        "tightness is claimed only for + - * $max ?: with a free Flag condition and every variable occurring once, over all 2^k corners (k <= 6)",
    ]
    ctx.stats = vlib.run_shards(shard, 16, seed=ctx.seed, n=ctx.pick(25, 650), n_random=ctx.pick(24, 64))
    return ctx.finish(None)


def replay(ctx, data):
    return True
