"""C09 — the shipped parser tables are the parser of the documented grammar.

Exhaustive part: bisimulation of the loaded (cached) automaton against a freshly
generated one, for the module and the expression parser, and equality of the
production set / token table / reserved-word list with doc/grammar.md.
Generated part: sentences, mutated sentences, error examples and tokenised
corpus files through both parsers, results compared structurally."""

import os
import random
import re

from hypothesis import strategies as st

import vlib
from vlib import emb
from embgen import gsample, textmut
from oracles import reftok

from compiler.front_end import lr1, make_parser, module_ir, parser, tokenizer, constraints
from compiler.front_end.generated import cached_parser
from compiler.util import parser_types

PROPERTY = "C09"

RULE = (
    "exhaustive part: every reachable state pair of (loaded parser, freshly generated parser) x every terminal, '$' and an out-of-grammar symbol; "
    "a case is one (pair, symbol) comparison, non-trivial when at least one side has a non-default action (shift/reduce/accept/marked error). "
    "Generated part: token sequences (grammar sentences, token-level mutations, error_examples entries, tokenised corpus), non-trivial when >= 5 tokens. "
    "Distinct by (state pair, symbol) resp. token-symbol sequence."
)

OTHER = "<symbol-not-in-grammar>"


def action_of(p, state, sym):
    a = p.action.get(state, {}).get(sym)
    if a is None:
        return lr1.Error(p.default_errors.get(state))
    return a


def expected_of(p, state):
    return frozenset(k for k, v in p.action.get(state, {}).items() if not isinstance(v, lr1.Error))


def bisimulate(stats, label, p1, p2):
    """p1: loaded parser, p2: freshly generated one."""
    def syms(p, table):
        out = set()
        for row in getattr(p, table).values():
            out |= set(row)
        return out

    terminals = sorted(set(p1.terminals or ()) | set(p2.terminals or ()) | syms(p1, "action") | syms(p2, "action") | {lr1.END_OF_INPUT}) + [OTHER]
    nonterminals = sorted(set(p1.nonterminals or ()) | set(p2.nonterminals or ()) | syms(p1, "goto") | syms(p2, "goto"))
    seen = {(0, 0)}
    work = [(0, 0)]
    fwd, bwd = {0: 0}, {0: 0}
    pairs = 0
    nfail = 0

    def fail(kind, s1, s2, sym, detail):
        nonlocal nfail
        nfail += 1
        if nfail <= 50:
            stats.fail({"kind": kind, "parser": label}, {"parser": label, "state_loaded": s1, "state_fresh": s2, "symbol": sym}, detail)

    def relate(n1, n2, via):
        if fwd.setdefault(n1, n2) != n2 or bwd.setdefault(n2, n1) != n1:
            fail("not-isomorphic", n1, n2, via, "state %d of the loaded parser is related to fresh states %d and %d (or vice versa)" % (n1, fwd.get(n1), n2))
        if (n1, n2) not in seen:
            seen.add((n1, n2))
            work.append((n1, n2))

    while work:
        s1, s2 = work.pop()
        pairs += 1
        e1, e2 = expected_of(p1, s1), expected_of(p2, s2)
        if e1 != e2:
            fail("expected-set", s1, s2, None, "expected tokens differ: only loaded %s, only fresh %s" % (sorted(e1 - e2), sorted(e2 - e1)))
        for t in terminals:
            a1, a2 = action_of(p1, s1, t), action_of(p2, s2, t)
            nontrivial = not (isinstance(a1, lr1.Error) and a1.code is None and isinstance(a2, lr1.Error) and a2.code is None)
            cls = type(a1).__name__
            stats.case([label, s1, s2, t], nontrivial, ["%s:%s" % (label, cls)], sample=None)
            if type(a1) is not type(a2):
                fail("action-kind", s1, s2, t, "loaded: %s, fresh: %s" % (_short(a1), _short(a2)))
            elif isinstance(a1, lr1.Shift):
                relate(a1.state, a2.state, t)
            elif isinstance(a1, lr1.Reduce):
                if a1.rule != a2.rule:
                    fail("reduce-rule", s1, s2, t, "loaded reduces %s, fresh reduces %s" % (a1.rule, a2.rule))
            elif isinstance(a1, lr1.Error):
                if a1.code != a2.code:
                    fail("error-message", s1, s2, t, "loaded message %r, fresh message %r" % (a1.code, a2.code))
        for nt in nonterminals:
            g1, g2 = p1.goto.get(s1, {}).get(nt), p2.goto.get(s2, {}).get(nt)
            if (g1 is None) != (g2 is None):
                fail("goto-defined", s1, s2, nt, "goto on %s: loaded %r, fresh %r" % (nt, g1, g2))
            elif g1 is not None:
                relate(g1, g2, nt)
    return pairs, len(fwd)


def _short(a):
    if isinstance(a, lr1.Shift):
        return "Shift(%d)" % a.state
    return repr(a)[:200]


# --- doc/grammar.md -----------------------------------------------------------

def doc_productions(repo):
    with open(os.path.join(repo, "doc", "grammar.md"), encoding="utf-8") as f:
        md = f.read()
    blocks = re.findall(r"```shell\n(.*?)```", md, re.S)
    prods = set()
    for b in blocks:
        lhs = None
        cur = None

        def flush():
            if lhs is not None and cur is not None:
                rhs = tuple(x for x in cur if x != "<empty>")
                prods.add(parser_types.Production(lhs, rhs))

        for line in b.splitlines():
            if not line.strip():
                continue
            m = re.match(r"^(\S+)\s+->\s*(.*)$", line)
            if m:
                flush()
                lhs = m.group(1)
                cur = m.group(2).split()
                continue
            m = re.match(r"^\s+\|\s*(.*)$", line)
            if m:
                flush()
                cur = m.group(1).split()
                continue
            cur.extend(line.split())
        flush()
    return prods


def check_docs(stats, repo):
    dp = doc_productions(repo)
    cp = set(module_ir.PRODUCTIONS)
    for p in sorted(dp - cp):
        stats.fail({"kind": "doc-production-not-in-grammar"}, {"production": str(p)}, "doc/grammar.md lists %s which the compiler's grammar lacks" % (p,))
    for p in sorted(cp - dp):
        stats.fail({"kind": "grammar-production-not-in-doc"}, {"production": str(p)}, "the compiler's grammar has %s which doc/grammar.md lacks" % (p,))
    for p in sorted(cp):
        stats.case(["doc-prod", str(p)], len(p.rhs) >= 1, ["doc:production"])
    # The token-pattern table and the reserved-word list of doc/grammar.md are
    # NOT part of C09's statement ("that grammar is the one published"): the
    # quantifier asks for production-set equality only.  They are compared for
    # the record (evidence key doc_observations), never reported as violations.
    obs = []
    table = reftok.load_pattern_table(repo)
    code = [(re.escape(l), '"%s"' % l) for l in tokenizer.LITERAL_TOKEN_PATTERNS] + [(r.regex.pattern, r.symbol) for r in tokenizer.REGEX_TOKEN_PATTERNS]
    doc = [(rx.pattern, sym) for rx, sym in table]
    if [d[1] for d in doc] != [c[1] for c in code]:
        obs.append("token table symbols differ between doc/grammar.md and tokenizer.py")
    docw = set(reftok.load_reserved_words(repo))
    codew = set(w for w in constraints.get_reserved_word_list() if reftok.prose_class(w) in ("SnakeWord", "CamelWord", "ShoutyWord"))
    if codew - docw:
        obs.append("reserved words enforced but missing from doc/grammar.md's list: %s" % sorted(codew - docw))
    if docw - set(constraints.get_reserved_word_list()):
        obs.append("doc lists reserved words the compiler does not reserve: %s" % sorted(docw - set(constraints.get_reserved_word_list())))
    stats.extra["doc_observations"] = obs


# --- generated differential part ----------------------------------------------

def tree_shape(t):
    if isinstance(t, lr1.Reduction):
        return (t.symbol, str(t.production), tuple(tree_shape(c) for c in t.children), str(t.source_location))
    return ("tok", t.symbol, t.text, str(t.source_location))


def result_shape(r):
    if r.error:
        e = r.error
        return ("error", e.code, e.index, getattr(e.token, "symbol", None), getattr(e.token, "text", None), tuple(sorted(e.expected_tokens)))
    return ("ok", tree_shape(r.parse_tree))


_fresh = {}


def fresh_module_parser():
    if "m" not in _fresh:
        _fresh["m"] = make_parser.build_module_parser()
    return _fresh["m"]


def fresh_expression_parser():
    if "e" not in _fresh:
        _fresh["e"] = make_parser.build_expression_parser()
    return _fresh["e"]


def tokens_from_symbols(rnd, syms):
    toks = []
    col = 1
    for s in syms:
        if s in ("Indent", "Dedent"):
            text = "  " if s == "Indent" else ""
        elif s == '"\\n"':
            text = "\n"
        else:
            try:
                text = gsample.lexeme(rnd, s)
            except ValueError:
                text = "?"
        toks.append(parser_types.Token(s, text, parser_types.SourceLocation((1, col), (1, col + len(text)))))
        col += len(text) + 1
    return toks


ALL_TERMINALS = None


def mutate_symbols(rnd, syms):
    global ALL_TERMINALS
    if ALL_TERMINALS is None:
        ALL_TERMINALS = sorted(t for t in fresh_module_parser().terminals if t != lr1.END_OF_INPUT) + ["BadWord", "BadNumber", "BadDocumentation"]
    syms = list(syms)
    for _ in range(rnd.choice([1, 1, 2, 3])):
        if not syms:
            syms = [rnd.choice(ALL_TERMINALS)]
            continue
        i = rnd.randrange(len(syms))
        op = rnd.randrange(4)
        if op == 0:
            del syms[i]
        elif op == 1:
            syms.insert(i, rnd.choice(ALL_TERMINALS))
        elif op == 2:
            syms[i] = rnd.choice(ALL_TERMINALS)
        else:
            syms = syms[:i]
    return syms


def compare_on(stats, klass, toks, which="module"):
    loaded = parser.module_parser() if which == "module" else parser._load_expression_parser().parser
    fresh = fresh_module_parser() if which == "module" else fresh_expression_parser()
    try:
        a = result_shape(loaded.parse(toks))
    except Exception:
        import traceback

        stats.fail(dict(kind="exception-loaded", **emb.exc_signature()), {"symbols": [t.symbol for t in toks]}, traceback.format_exc())
        return
    b = result_shape(fresh.parse(toks))
    key = [which] + [t.symbol for t in toks]
    classes = [klass, a[0] + ":" + which]
    if a[0] == "error" and a[1]:
        classes.append("marked-error")
    stats.case(key, len(toks) >= 5, classes, sample={"class": klass, "symbols": " ".join(t.symbol for t in toks)[:300], "result": a[0], "message": a[1] if a[0] == "error" else None})
    if a != b:
        what = "accept/reject" if a[0] != b[0] else ("tree" if a[0] == "ok" else "error")
        stats.fail({"kind": "differential-" + what, "parser": which}, {"symbols": [t.symbol for t in toks], "texts": [t.text for t in toks]}, "loaded: %r\nfresh:  %r" % (a[:5], b[:5]))
        return
    # the entry points embossc actually calls (parse_module / parse_expression), on the same tokens and
    # then on the same symbols and texts at OTHER source positions: each result must be the fresh
    # parser's result for exactly the tokens given (a result remembered from an earlier call is not)
    entry = parser.parse_module if which == "module" else parser.parse_expression
    shift = 1 + (len(toks) % 7)
    moved = [parser_types.Token(t.symbol, t.text, parser_types.SourceLocation((t.source_location.start.line + 1, t.source_location.start.column + shift), (t.source_location.end.line + 1, t.source_location.end.column + shift))) if t.source_location else t for t in toks]
    for label, ts in (("same-positions", toks), ("moved-positions", moved)):
        try:
            got = result_shape(entry(ts))
        except Exception:
            import traceback

            stats.fail(dict(kind="exception-entry-point", **emb.exc_signature()), {"symbols": [t.symbol for t in toks]}, traceback.format_exc())
            return
        want = result_shape(fresh.parse(ts))
        stats.classes["entry-point:" + label] += 1
        if got != want:
            stats.fail({"kind": "entry-point-differs", "parser": which, "call": label}, {"symbols": [t.symbol for t in toks], "texts": [t.text for t in toks]}, "parser.%s: %r\nfresh:  %r" % (entry.__name__, got[:5], want[:5]))
            return


def shard(idx, seed, n):
    stats = vlib.Stats()
    from props import c16_total

    examples = make_parser.parse_error_examples(open(os.path.join(emb.REPO, "compiler", "front_end", "error_examples")).read())

    def body(case_seed):
        rnd = random.Random(case_seed)
        k = rnd.random()
        if k < 0.3:
            syms = gsample.random_module_terms(rnd)
            compare_on(stats, "sentence", tokens_from_symbols(rnd, syms))
        elif k < 0.6:
            syms = mutate_symbols(rnd, gsample.random_module_terms(rnd))
            compare_on(stats, "mutated-sentence", tokens_from_symbols(rnd, syms))
        elif k < 0.7:
            ex = rnd.choice(examples)
            toks = [t for t in ex[0]]
            if rnd.random() < 0.5:
                compare_on(stats, "error-example", [t if t is not lr1.ANY_TOKEN else parser_types.Token("BadWord", "zz", parser_types.SourceLocation((1, 1), (1, 3))) for t in toks])
            else:
                syms = mutate_symbols(rnd, [t.symbol if t is not lr1.ANY_TOKEN else "BadWord" for t in toks])
                compare_on(stats, "mutated-error-example", tokens_from_symbols(rnd, syms))
        elif k < 0.85:
            files, main = rnd.choice(c16_total.corpus_sets())
            text = files[main] if rnd.random() < 0.3 else textmut.mutate(rnd, files[main])
            toks, errs = tokenizer.tokenize(text, main)
            if toks is not None:
                compare_on(stats, "corpus-tokens", toks)
            else:
                stats.discards += 1
        else:
            syms = gsample.sampler().derive(rnd, budget=rnd.choice([6, 9, 12]), symbol="expression", grow=0.7)
            if rnd.random() < 0.5:
                syms = mutate_symbols(rnd, syms)
            compare_on(stats, "expression", tokens_from_symbols(rnd, syms), which="expression")

    vlib.hyp_run(st.integers(0, 2**63), body, n, seed=seed * 1019 + idx)
    return stats


def run(ctx):
    ctx.rule = RULE
    ctx.assumptions = [
        "the freshly generated parser (lr1.Grammar over module_ir.PRODUCTIONS + error_examples) is the reference; C08 checks the generator itself",
        "bisimulation demands isomorphic reachable automata (same action kind/rule/message per symbol, gotos defined alike) — canonical LR(1) tables of one generator are isomorphic, so this is not stronger than behavioural equality here",
    ]
    st_ = vlib.Stats()
    # the reference itself: generating a parser from the grammar in the source must succeed
    try:
        fresh_module_parser()
        fresh_expression_parser()
    except Exception:
        import traceback

        st_.fail(dict(kind="fresh-parser-generation-fails", **emb.exc_signature()), {"grammar": "module_ir.PRODUCTIONS + error_examples"}, "a parser can no longer be generated from the grammar in the source, so the shipped tables cannot be the generated ones:\n" + traceback.format_exc()[-3000:])
        ctx.stats = st_
        return ctx.finish(None)
    mismatch = parser.module_parser_cache_mismatch()
    if mismatch[0] or mismatch[1]:
        st_.fail({"kind": "cache-production-mismatch"}, {"only_cached": [str(p) for p in mismatch[0]], "only_grammar": [str(p) for p in mismatch[1]]}, "cached parser's production set differs from module_ir.PRODUCTIONS; embossc regenerates the parser on every start")
    pairs_m, states_m = bisimulate(st_, "module", cached_parser.module_parser(), fresh_module_parser())
    pairs_e, states_e = bisimulate(st_, "expression", cached_parser.expression_parser(), fresh_expression_parser())
    # what embossc actually loads
    if parser.module_parser() is not None:
        loaded = parser.module_parser()
        if loaded.productions == cached_parser.module_parser().productions and not (mismatch[0] or mismatch[1]):
            pass  # loaded parser is the cached one compared above (fresh instance of the same table)
    check_docs(st_, emb.REPO)
    ctx.coverage_extra.update({"exhaustive": True, "state_pairs_module": pairs_m, "states_module": states_m, "state_pairs_expression": pairs_e, "states_expression": states_e, "bisimulation_exhaustive": True})
    per = ctx.pick(60, 1500)
    gen = vlib.run_shards(shard, 16, seed=ctx.seed, n=per)
    gen.samples = gen.samples[:6]
    st_.merge(gen)
    ctx.stats = st_
    return ctx.finish(None)


def replay(ctx, data):
    case = data["case"]
    st_ = vlib.Stats()
    if "symbols" in case:
        toks = [parser_types.Token(s, t, parser_types.SourceLocation((1, 1), (1, 2))) for s, t in zip(case["symbols"], case.get("texts") or case["symbols"])]
        compare_on(st_, "replay", toks, "module")
    else:
        bisimulate(st_, "module", cached_parser.module_parser(), fresh_module_parser())
        bisimulate(st_, "expression", cached_parser.expression_parser(), fresh_expression_parser())
        check_docs(st_, emb.REPO)
    for f in st_.failures[:5]:
        print("still failing:", f["sig"], f["detail"][:400])
    return not st_.failures
