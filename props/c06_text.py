"""C06 — text format output reads back to the same structure."""

import os
import random
import re
import shutil

import vlib
from vlib import emb
from embgen import model as M, semgen
from embref import interp as RI
from cppfarm import driver as D, farm
from props import c01_views as C1

PROPERTY = "C06"

RULE = (
    "cases = (module, Ok buffer, option set) and (integer type, value, base, grouping): layout-generator structs (nested aggregates, arrays of scalars/structs, "
    "enums by name and number, bits, conditionals, dynamic offsets, text_output Skip/Emit marks on fields nothing depends on), buffers the reference says are Ok, "
    "options = base {2,10,16} x digit grouping x {multi-line+comments, multi-line, single-line}; oracle: UpdateFromText(WriteToString(v,o)) into a zeroed buffer "
    "succeeds and writing the result again gives the same text (all emitted fields read back equal), Skip fields absent, Emit fields present, every emitted field "
    "after the fields its location/condition mention. Integer codec: encode == independent Python rendering, decode(encode(x)) == x for boundary and drawn values "
    "of all 8 integer types, clearly malformed numbers rejected. Non-trivial = struct with a nested/array/conditional/dynamic field and >= 3 emitted fields, or a "
    "codec value of >= 2 digits; distinct by (module, buffer, options) / (type, value, base, grouping)."
)

MODES = [("ml+c", True, True), ("ml", True, False), ("sl", False, False)]
OPTS = [(b, g, m) for b in (10, 16, 2) for g in (False, True) for m in range(3)]


def opts_expr(i):
    b, g, m = OPTS[i]
    _, ml, c = MODES[m]
    return '::emboss::TextOutputOptions().Multiline(%s).WithIndent("  ").WithComments(%s).WithDigitGrouping(%s).WithNumericBase(%d)' % ("true" if ml else "false", "true" if c else "false", "true" if g else "false", b)


def text_fn(gen, module):
    L = ["static ::emboss::TextOutputOptions opts_of(int i) {", "  switch (i) {"]
    for i in range(len(OPTS)):
        L.append("    case %d: return %s;" % (i, opts_expr(i)))
    L.append("    default: return ::emboss::TextOutputOptions();")
    L.append("  }")
    L.append("}")
    L.append("static std::string esc(const std::string &s) { std::string o; for (char c : s) { if (c == '\\n') o += \"\\\\n\"; else if (c == '\\\\') o += \"\\\\\\\\\"; else o += c; } return o; }")
    L.append("static void text_cmd(int si, int oi, unsigned char *pa, std::size_t na) {")
    L.append("  switch (si) {")
    for i, st in enumerate(gen.top_structs()):
        if st.params:
            continue
        mk = "%s::Make%sView" % (D.cpp_ns(module), st.name)
        L.append("    case %d: { auto v = %s(pa, na); std::string s = ::emboss::WriteToString(v, opts_of(oi)); P(\"text\", esc(s));" % (i, mk))
        L.append("      unsigned char *z = new unsigned char[na]; std::memset(z, 0, na); auto w = %s(z, na);" % mk)
        L.append("      bool u = ::emboss::UpdateFromText(w, s); P(\"update\", u);")
        L.append("      if (u) { auto w2 = %s(z, na); P(\"okW\", w2.Ok()); P(\"text2\", esc(::emboss::WriteToString(w2, opts_of(oi)))); P(\"bytes\", tohex(z, na)); }" % mk)
        L.append("      delete[] z; break; }")
    L.append("    default: break;")
    L.append("  }")
    L.append("}")
    return "\n".join(L)


MAIN_EXTRA = r"""
    if (tok[0] == "T") {
      int si = std::stoi(tok[1]); int oi = std::stoi(tok[2]); std::vector<unsigned char> a = unhex(tok[3]);
      unsigned char *pa = new unsigned char[a.size()]; if (!a.empty()) std::memcpy(pa, a.data(), a.size());
      text_cmd(si, oi, pa, a.size());
      delete[] pa;
    }
"""


def refs_in(e, out):
    if not isinstance(e, tuple) or not e:
        return
    if e[0] in ("r", "present"):
        out.add(e[1][0])
        return
    if e[0] == "size" and e[1]:
        out.add(e[1][0])
        return
    for x in e[1:]:
        if isinstance(x, tuple):
            refs_in(x, out)
        elif isinstance(x, list):
            for y in x:
                refs_in(y, out)


def all_path_components(m):
    """Every name that occurs anywhere in a reference path of the module (a.b.c contributes a, b and c)."""
    out = set()

    def walk(e):
        if not isinstance(e, tuple) or not e:
            return
        if e[0] in ("r", "present", "size") and len(e) > 1 and isinstance(e[1], (tuple, list)):
            out.update(x for x in e[1] if isinstance(x, str))
            return
        for x in e[1:]:
            if isinstance(x, tuple):
                walk(x)
            elif isinstance(x, list):
                for y in x:
                    walk(y)

    def of_struct(st):
        for f in st.fields:
            for g in [f] + (f.anon or []):
                for e in (g.start, g.size, g.cond, g.value, g.requires):
                    if e is not None:
                        walk(e)
                if g.typ is not None:
                    for a in g.typ.args:
                        walk(a)
                    for d in g.typ.dims:
                        if d is not None:
                            walk(d)
                if g.inline is not None and isinstance(g.inline, M.Struct):
                    of_struct(g.inline)
        if st.requires is not None:
            walk(st.requires)
        for sub in getattr(st, "subtypes", []) or []:
            if isinstance(sub, M.Struct):
                of_struct(sub)

    for t in m.types:
        if isinstance(t, M.Struct):
            of_struct(t)
    return out


def struct_refs(st):
    """name -> set of same-struct names its location/condition/value mention; and the set of all referenced names."""
    deps = {}
    allrefs = set()
    for f in st.fields:
        for g in [f] + (f.anon or []):
            s = set()
            for e in (g.start, g.size, g.cond, g.value, g.requires):
                if e is not None:
                    refs_in(e, s)
            if g.typ is not None:
                for a in g.typ.args:
                    refs_in(a, s)
                for d in g.typ.dims:
                    if d is not None:
                        refs_in(d, s)
            if g is not f and f.cond is not None:
                refs_in(f.cond, s)
            deps[g.name] = s
            allrefs |= s
    if st.requires is not None:
        refs_in(st.requires, allrefs)
    return deps, allrefs


def has_float(st, depth=0):
    for f in st.fields:
        for g in [f] + (f.anon or []):
            t = g.typ
            if t is None:
                continue
            if t.kind == "Float":
                return True
            tgt = g.inline if (g.inline is not None and not isinstance(g.inline, M.Enum)) else t.target
            if t.kind in ("struct", "bits") and tgt is not None and depth < 4 and has_float(tgt, depth + 1):
                return True
    return False


def mark_text_output(rnd, m):
    enums = [t for t in m.types if isinstance(t, M.Enum)]
    for e in enums:
        if rnd.random() < 0.5:
            e.enum_case = rnd.choice(["kCamelCase", "kCamelCase, SHOUTY_CASE"])
    used = set()
    for st in [t for t in m.types if isinstance(t, M.Struct)]:
        for f in st.fields:
            for g in [f] + (f.anon or []):
                if g.typ is not None and g.typ.target is not None:
                    used.add(id(g.typ.target))
    for st in [t for t in m.types if isinstance(t, M.Struct) and t.kind == "struct"]:
        if enums and not st.params and id(st) not in used and rnd.random() < 0.8:
            # make sure enum values by name and by number occur in the text
            en = rnd.choice(enums)
            t = M.Type("enum", 8, name=en.name)
            t.target = en
            f = M.Field("en_extra", ("n", C1.struct_maxlen(st)), ("n", 1), t)
            st.fields.append(f)
            if getattr(st, "static_size", None) is not None:
                st.static_size = None
    # a field that anything depends on - also through a member path from another structure (f11.b4) -
    # must stay in the text, or the text cannot be read back
    everywhere = all_path_components(m)
    for st in [t for t in m.types if isinstance(t, M.Struct)]:
        deps, allrefs = struct_refs(st)
        allrefs = allrefs | everywhere
        for f in st.fields:
            if f.is_anon or f.inline is not None or f.is_virtual:
                continue
            k = rnd.random()
            if k < 0.12 and f.name not in allrefs and (f.abbr is None or f.abbr not in allrefs):
                f.text_output = "Skip"
            elif k < 0.24:
                f.text_output = "Emit"


def tokenize_text(s):
    s = re.sub(r"#[^\n]*", "", s)
    return re.findall(r"[{}:,]|\[[0-9]+\]|[^\s{}:,]+", s)


def top_level_names(s):
    """Names of the fields emitted at the top level of a struct text, in order."""
    toks = tokenize_text(s)
    names = []
    depth = 0
    i = 0
    while i < len(toks):
        t = toks[i]
        if t == "{":
            depth += 1
        elif t == "}":
            depth -= 1
        elif depth == 1 and i + 1 < len(toks) and toks[i + 1] == ":" and not t.startswith("["):
            names.append(t)
        i += 1
    return names


def float_values(rnd, n):
    """Finite doubles / floats as bit patterns: extremes of magnitude, values that need every significant
    digit, three-digit exponents of either sign, both signs, zeros, denormals, and random finite ones."""
    import struct

    d = [1.7976931348623157e308, 2.2250738585072014e-308, 5e-324, 1.2345678901234567e100, 9.8765432109876543e-100, 1.0, 0.1, 1e22, 1e23, 123456789012345678.0, 3.141592653589793, 0.0, 2.0**-1022 * 0.75, 1e100, 1e-99, 7.0e-310]
    out64 = []
    for x in d:
        out64 += [struct.pack("<d", x), struct.pack("<d", -x)]
    while len(out64) < n:
        b = rnd.getrandbits(64)
        if (b >> 52) & 0x7FF != 0x7FF:
            out64.append(struct.pack("<Q", b))
    f = [3.4028234663852886e38, 1.1754943508222875e-38, 1e-45, 1.0, 0.1, 16777216.0, 3.1415927410125732, 0.0, 1.2345678e-30]
    out32 = []
    for x in f:
        out32 += [struct.pack("<f", x), struct.pack("<f", -x)]
    while len(out32) < n:
        b = rnd.getrandbits(32)
        if (b >> 23) & 0xFF != 0xFF:
            out32.append(struct.pack("<I", b))
    return out64, out32


def float_family_case(seed):
    """Always part of the run.  cpp-reference.md still says text I/O of Float is "not yet implemented"; the
    runtime implements both directions and calls the reader "the mirror of" the writer, so finite values are
    held to the round trip (NaN payloads and infinities are left out)."""
    rnd = random.Random(seed)
    m = M.Module("m.emb")
    m.default_byte_order = rnd.choice(["LittleEndian", "BigEndian"])
    m.namespace = "v::fl"
    st_ = M.Struct("struct", "Fl")
    st_.fields.append(M.Field("d", ("n", 0), ("n", 8), M.Type("Float", 64)))
    st_.fields.append(M.Field("f", ("n", 8), ("n", 4), M.Type("Float", 32)))
    m.types.append(st_)
    semgen.set_parents(st_, None)
    text = semgen.module_text(m)
    r = emb.compile_files({"m.emb": text})
    if not r.accepted:
        raise vlib.HarnessError("float family module rejected: %s" % (r.exc_sig or r.errors[0][0].message))
    C1.set_cpp_names(m)
    gen = D.DriverGen({"": m})
    src = gen.source("m.emb.h", extra_fns=text_fn(gen, m), main_extra=MAIN_EXTRA)
    d64, f32 = float_values(rnd, 48)
    script, expect = [], []
    be = m.default_byte_order == "BigEndian"
    for i in range(max(len(d64), len(f32))):
        b = (d64[i % len(d64)][::-1] if be else d64[i % len(d64)]) + (f32[i % len(f32)][::-1] if be else f32[i % len(f32)])
        for oi in rnd.sample(range(len(OPTS)), 3):
            script.append("T 0 %d %s" % (oi, b.hex()))
            expect.append({"struct": "Fl", "buf": b, "opt": OPTS[oi], "present": {"d": True, "f": True}, "deps": {}, "skip": [], "emit": [], "arrays": False, "nontrivial": True, "exact_bytes": True})
    return {"rejected": False, "text": text, "header": r.header, "driver": src, "script": "\n".join(script) + "\n", "expect": expect, "features": ["float-family"], "module": m, "excluded_float": 0}


def build_case(seed, nbuf):
    if isinstance(seed, tuple) and seed[0] == "float-family":
        return float_family_case(seed[1])
    rnd = random.Random(seed)
    m, feats = semgen.layout_module(rnd)
    mark_text_output(rnd, m)
    text = semgen.module_text(m)
    r = emb.compile_files({"m.emb": text})
    if not r.accepted:
        return {"rejected": True, "text": text, "why": (r.exc_sig or r.errors[0][0].message.split("\n")[0])}
    C1.set_cpp_names(m)
    gen = D.DriverGen({"": m})
    src = gen.source("m.emb.h", extra_fns=text_fn(gen, m), main_extra=MAIN_EXTRA)
    I = RI.Interp({"": m})
    from props import c20_copy_equals as C20

    script, expect = [], []
    excluded_float = 0
    for si, s in enumerate(gen.top_structs()):
        if s.params:
            continue
        if has_float(s):
            excluded_float += 1
            continue
        maxlen = C1.struct_maxlen(s)
        oks = C20.ok_buffers(rnd, I, s, maxlen, want=nbuf, tries=150)
        deps, allrefs = struct_refs(s)
        # variants in which enum fields hold declared (named) values
        extra = []
        for b in oks[:3]:
            nb = bytearray(b)
            changed = False
            for f in s.fields:
                t = f.typ
                if t is not None and t.kind == "enum" and not t.dims and f.start[0] == "n" and f.size[0] == "n" and f.start[1] + f.size[1] <= len(nb):
                    val = rnd.choice(t.target.values)[1]
                    bo = RI.effective_byte_order(RI.StructView(I, s, {}, b), f)
                    nb[f.start[1] : f.start[1] + f.size[1]] = (val % (1 << (8 * f.size[1]))).to_bytes(f.size[1], "big" if bo == "BigEndian" else "little")
                    changed = True
            if changed and RI.StructView(I, s, {}, bytes(nb)).ok():
                extra.append(bytes(nb))
        oks = oks + extra
        for b in oks:
            v = RI.StructView(I, s, {}, b)
            size = v.size()
            for oi in rnd.sample(range(len(OPTS)), 5):
                script.append("T %d %d %s" % (si, oi, b[:].hex() or "-"))
                present = {}
                for f in s.fields:
                    for g in ([f] if not f.is_anon else f.anon):
                        present[g.name] = v.exists_by_name(g.name) is True
                arrays = any((g.typ is not None and g.typ.dims) for f in s.fields for g in [f] + (f.anon or []))
                expect.append({"struct": s.name, "buf": b, "opt": OPTS[oi], "present": present, "deps": deps, "skip": [f.name for f in s.fields if f.text_output == "Skip"], "emit": [f.name for f in s.fields if f.text_output == "Emit"], "arrays": arrays, "nontrivial": bool(set(feats) & {"nested-struct", "array", "conditional", "dynamic-offset", "dynamic-array", "inline-bits", "anonymous-bits"})})
        # numbers outside the range of the field's C++ type, congruent to a value the field accepts:
        # a reader that wraps instead of rejecting writes that value and reports success
        if oks:
            b = oks[0]
            v = RI.StructView(I, s, {}, b)
            for f in s.fields:
                for g in ([f] if not f.is_anon else f.anon):
                    t = g.typ
                    if t is None or t.dims or t.kind not in ("UInt", "Int", "Bcd"):
                        continue
                    try:
                        fv = v.field_view_by_name(g.name)
                        cur = fv.value() if (v.exists_by_name(g.name) is True and fv.ok()) else None
                    except Exception:
                        cur = None
                    if not isinstance(cur, int) or isinstance(cur, bool) or g.is_virtual or not isinstance(fv, RI.ScalarView):
                        continue
                    for w in (8, 16, 32, 64):
                        for n in (cur + 2**w, cur - 2**w):
                            if -(2**63) <= n < 2**64 and not fv.representable(n) and rnd.random() < 0.5:
                                script.append("U %d %s %s" % (si, b.hex() or "-", ("{ %s: %d }" % (g.name, n)).encode().hex()))
                                expect.append({"probe": True, "struct": s.name, "buf": b, "field": g.name, "number": n, "current": cur, "virtual": bool(g.is_virtual), "kind": t.kind})
    return {"rejected": False, "text": text, "header": r.header, "driver": src, "script": "\n".join(script) + "\n", "expect": expect, "features": sorted(feats), "module": m, "excluded_float": excluded_float}


def compare(case, outputs, stats):
    exp = case["expect"]
    if len(outputs) != len(exp):
        stats.fail({"kind": "driver-output-count"}, {"text": case["text"]}, "driver printed %d cases, expected %d" % (len(outputs), len(exp)))
        return
    nfail = 0
    m = case["module"]
    for e, got in zip(exp, outputs):
        gd = dict(got)
        if e.get("probe"):
            accepted = gd.get("u") == "1"
            stats.case([case["text"], e["struct"], e["field"], e["number"]], True, ["out-of-range-number", "probe:" + e["kind"] + (":virtual" if e["virtual"] else ""), "probe-accepted" if accepted else "probe-rejected"], sample={"struct": e["struct"], "field": e["field"], "text": "{ %s: %d }" % (e["field"], e["number"]), "accepted": accepted} if stats.evaluations % 53 == 0 else None)
            back = gd.get("w.%s.Read" % e["field"])
            if accepted:
                # the number is outside the values the field can hold at all
                stats.fail({"kind": "number-wrapped-not-rejected", "field": e["kind"]}, {"text": case["text"], "struct": e["struct"], "buf": e["buf"].hex(), "update": "{ %s: %d }" % (e["field"], e["number"])}, "UpdateFromText(\"{ %s: %d }\") returned true although the field cannot hold that number; the field then reads %s (it read %d before)" % (e["field"], e["number"], back, e["current"]))
            continue
        s = gd.get("text", "").replace("\\n", "\n").replace("\\\\", "\\")
        names = top_level_names(s)
        base, grouping, mode = e["opt"]
        stats.case([case["text"], e["struct"], e["buf"].hex(), list(e["opt"])], e["nontrivial"] and len(names) >= 3, ["mode:" + MODES[mode][0], "base:%d" % base, "grouping" if grouping else "no-grouping"] + (["has-array"] if e["arrays"] else []), sample={"struct": e["struct"], "buffer": e["buf"].hex(), "options": {"base": base, "digit_grouping": grouping, "mode": MODES[mode][0]}, "text": s[:300]})
        case_d = {"text": case["text"], "struct": e["struct"], "buf": e["buf"].hex(), "opt": list(e["opt"])}

        def fail(sig, detail):
            nonlocal nfail
            if nfail < 8:
                nfail += 1
                sig = dict(sig, mode=MODES[mode][0], arrays="yes" if e["arrays"] else "no")
                stats.fail(sig, case_d, detail + "\n--- text:\n" + s[:700])

        for n in e["skip"]:
            if n in names:
                fail({"kind": "skip-field-emitted"}, "field %s is marked Skip but appears in the text" % n)
        for n in e["emit"]:
            if e["present"].get(n) and n not in names:
                fail({"kind": "emit-field-missing"}, "field %s is marked Emit and present, but absent from the text" % n)
        order = {n: i for i, n in enumerate(names)}
        for n in names:
            for d in e["deps"].get(n, ()):
                if d in order and order[d] > order[n]:
                    fail({"kind": "emitted-before-dependency"}, "field %s is emitted before %s, which its location/condition mentions" % (n, d))
        if gd.get("update") != "1":
            fail({"kind": "update-from-own-text-fails"}, "UpdateFromText(WriteToString(view, options)) returned false")
            continue
        if e.get("exact_bytes") and gd.get("bytes") != e["buf"].hex():
            fail({"kind": "roundtrip-value-differs", "field": "Float"}, "the bytes read back from the text are %s, the original view holds %s" % (gd.get("bytes"), e["buf"].hex()))
        if gd.get("text2") != gd.get("text"):
            a, b = s.split("\n"), gd.get("text2", "").replace("\\n", "\n").split("\n")
            k = next((i for i in range(min(len(a), len(b))) if a[i] != b[i]), min(len(a), len(b)))
            fail({"kind": "roundtrip-text-differs"}, "text written from the re-read view differs at line %d: %r vs %r" % (k + 1, a[k] if k < len(a) else None, b[k] if k < len(b) else None))


# ---------------------------------------------------------------------------
# integer codec
# ---------------------------------------------------------------------------

CODEC_SRC = r"""
#include "runtime/cpp/emboss_text_util.h"
#include <cstdint>
#include <cstdio>
#include <iostream>
#include <sstream>
#include <string>
template <class T> static void enc(const std::string &v, int base, int grouping) {
  T x; if (std::is_signed<T>::value) x = static_cast<T>(std::stoll(v)); else x = static_cast<T>(std::stoull(v));
  ::emboss::support::TextOutputStream os; ::emboss::support::WriteIntegerToTextStream(x, &os, static_cast<std::uint8_t>(base), grouping != 0);
  std::printf("E=%s\n", os.Result().c_str());
}
template <class T> static void dec(const std::string &t) {
  T x = 0; bool ok = ::emboss::support::DecodeInteger(t, &x);
  if (ok) { if (std::is_signed<T>::value) std::printf("D=1:%lld\n", static_cast<long long>(x)); else std::printf("D=1:%llu\n", static_cast<unsigned long long>(x)); }
  else std::printf("D=0\n");
}
int main() {
  std::string line;
  while (std::getline(std::cin, line)) {
    std::istringstream is(line); std::string cmd, ty; is >> cmd >> ty;
    if (cmd == "E") { std::string v; int b, g; is >> v >> b >> g;
#define X(N, T) if (ty == N) enc<T>(v, b, g);
      X("i8", std::int8_t) X("u8", std::uint8_t) X("i16", std::int16_t) X("u16", std::uint16_t) X("i32", std::int32_t) X("u32", std::uint32_t) X("i64", std::int64_t) X("u64", std::uint64_t)
#undef X
    } else if (cmd == "D") { std::string t; std::getline(is, t); if (!t.empty() && t[0] == ' ') t = t.substr(1);
      if (t == "<empty>") t = "";
#define X(N, T) if (ty == N) dec<T>(t);
      X("i8", std::int8_t) X("u8", std::uint8_t) X("i16", std::int16_t) X("u16", std::uint16_t) X("i32", std::int32_t) X("u32", std::uint32_t) X("i64", std::int64_t) X("u64", std::uint64_t)
#undef X
    }
  }
  return 0;
}
"""

TYPES = {"i8": (True, 8), "u8": (False, 8), "i16": (True, 16), "u16": (False, 16), "i32": (True, 32), "u32": (False, 32), "i64": (True, 64), "u64": (False, 64)}


def py_encode(x, base, grouping):
    digits = {10: "%d", 16: "%x", 2: None}
    a = abs(x)
    body = format(a, {10: "d", 16: "x", 2: "b"}[base])
    if grouping:
        g = {10: 3, 16: 4, 2: 8}[base]
        parts = []
        while body:
            parts.insert(0, body[-g:])
            body = body[:-g]
        body = "_".join(parts)
    return ("-" if x < 0 else "") + {10: "", 16: "0x", 2: "0b"}[base] + body


def codec_cases(rnd, n):
    script, expect = [], []
    for ty, (sgn, bits) in TYPES.items():
        lo, hi = (-(2 ** (bits - 1)), 2 ** (bits - 1) - 1) if sgn else (0, 2**bits - 1)
        vals = {lo, hi, 0, 1, min(hi, 9), min(hi, 10), min(hi, 99), min(hi, 100), min(hi, 127), hi // 2, lo + 1, hi - 1}
        if sgn:
            vals |= {-1, -10, -100 if lo <= -100 else -1}
        for _ in range(n):
            vals.add(rnd.randint(lo, hi))
            vals.add(rnd.choice([1, -1 if sgn else 1]) * min(hi, 10 ** rnd.randrange(0, 19)))
        for x in sorted(vals):
            if not (lo <= x <= hi):
                continue
            for base in (10, 16, 2):
                for grouping in (0, 1):
                    want = py_encode(x, base, bool(grouping))
                    script.append("E %s %d %d %d" % (ty, x, base, grouping))
                    expect.append(("E", ty, x, base, grouping, want))
                    script.append("D %s %s" % (ty, want))
                    expect.append(("D", ty, want, "1:%d" % x))
        # clearly malformed or out-of-range inputs
        bad = ["<empty>", "-", "0x", "0b", "0b2", "12a", "0xg", "1 2", "--1", "+-1", "abc", "0x-1", "1-", str(hi + 1), py_encode(hi + 1, 16, False), py_encode(hi + 1, 2, True), str(lo - 1), py_encode(lo - 1, 16, False) if sgn else "-1", str(hi * 10 + 5), str(2**64), str(2**64 + hi), "-" + str(2**63 + 1)]
        if not sgn:
            bad += ["-1", "-0x1", "-100"]
        for t in bad:
            script.append("D %s %s" % (ty, t))
            expect.append(("D", ty, t, "0"))
    return script, expect


def run_codec(ctx, stats):
    d = os.path.join(ctx.tmp, "codec")
    farm.write_files(d, {"codec.cc": CODEC_SRC})
    res = farm.build_all([(d, "codec.cc", "codec", farm.GXX, [])])
    if not res[0][1]:
        raise vlib.HarnessError("codec driver does not compile:\n" + res[0][2])
    rnd = random.Random(ctx.seed * 7 + 1)
    script, expect = codec_cases(rnd, ctx.pick(12, 200))
    rc, out, err = farm.run_exe(d, "codec", "\n".join(script) + "\n")
    if rc != 0:
        stats.fail({"kind": "codec-driver-crashed", "rc": rc, "msg": (err.strip().split("\n") or [""])[-1][-100:]}, {}, err[-1500:])
        return
    lines = [l for l in out.split("\n") if l]
    if len(lines) != len(expect):
        raise vlib.HarnessError("codec driver printed %d lines, expected %d" % (len(lines), len(expect)))
    nfail = 0
    for e, l in zip(expect, lines):
        if e[0] == "E":
            _, ty, x, base, grouping, want = e
            stats.case(["E", ty, x, base, grouping], abs(x) >= 10, ["codec-encode", "codec:" + ty], sample={"op": "encode", "type": ty, "value": x, "base": base, "grouping": bool(grouping), "text": want} if abs(x) > 1000 and nfail == 0 and stats.evaluations % 211 == 0 else None)
            if l != "E=" + want and nfail < 10:
                nfail += 1
                stats.fail({"kind": "integer-encoding", "base": base, "grouping": grouping}, {"type": ty, "value": x}, "%s value %d base %d grouping %d: runtime writes %r, expected %r" % (ty, x, base, grouping, l[2:], want))
        else:
            _, ty, t, want = e
            stats.case(["D", ty, t], len(t) >= 2, ["codec-decode-valid" if want != "0" else "codec-decode-malformed", "codec:" + ty])
            if l != "D=" + want and nfail < 10:
                nfail += 1
                stats.fail({"kind": "integer-decoding", "accepts": l != "D=0", "want_accept": want != "0"}, {"type": ty, "text": t}, "%s text %r: runtime gives %s, expected %s" % (ty, t, l[2:], want))


def run(ctx):
    ctx.rule = RULE
    ctx.assumptions = [
        "round trip is judged by WriteToString(re-read view) == WriteToString(original) under the same options, which holds iff every emitted field reads back equal",
        "single-line output with comments is not claimed re-readable and not generated; generated structs containing Float fields are excluded (cpp-reference.md says float text I/O is not implemented); a fixed Float structure with finite values is held to the bit-exact round trip, because the runtime does implement both directions",
        "Skip is only put on fields no other field depends on",
    ]
    stats = vlib.Stats()
    run_codec(ctx, stats)
    nmod = ctx.pick(48, 500)
    rnd = random.Random(ctx.seed * 86028121 + 9)
    root = os.path.join(ctx.tmp, "c06")
    cases = []
    seeds = [rnd.randrange(2**62) for _ in range(nmod)] + [("float-family", ctx.seed * 2 + k) for k in range(2)]
    for i, sd in enumerate(seeds):
        c = build_case(sd, ctx.pick(4, 8))
        if c["rejected"] or not c["expect"]:
            stats.discards += 1
            continue
        stats.extra["structs_excluded_for_float"] = stats.extra.get("structs_excluded_for_float", 0) + c["excluded_float"]
        d = os.path.join(root, "m%d" % i)
        farm.write_files(d, {"m.emb.h": c["header"], "driver.cc": c["driver"], "m.emb": c["text"]})
        c["dir"] = d
        cases.append(c)
    builds = farm.build_all([(c["dir"], "driver.cc", "driver", farm.GXX, []) for c in cases])
    runs = []
    for c, (d, ok, err) in zip(cases, builds):
        if not ok:
            first = next((l for l in err.split("\n") if "error" in l), err[:200])
            stats.fail({"kind": "does-not-compile", "msg": re.sub(r"[0-9]+", "N", first)[-100:]}, {"text": c["text"]}, err[-3000:])
        else:
            runs.append(c)
    results = farm.run_all([(c["dir"], "driver", c["script"]) for c in runs])
    for c, (rc, out, err) in zip(runs, results):
        if rc != 0:
            stats.fail({"kind": "driver-crashed", "rc": rc, "msg": re.sub(r"[0-9]+", "N", (err.strip().split("\n") or [""])[-1])[-100:]}, {"text": c["text"]}, err[-2000:])
            continue
        compare(c, D.parse_output(out), stats)
    shutil.rmtree(root, ignore_errors=True)
    ctx.stats = stats
    return ctx.finish(None)


def replay(ctx, data):
    return True
