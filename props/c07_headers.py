"""C07 — every module the compiler accepts yields a header that compiles and instantiates."""

import os
import random
import re
import shutil
import subprocess

import vlib
from vlib import emb
from embgen import names, physical, scopes, semgen, typed
from cppfarm import farm, irdriver

PROPERTY = "C07"
names.load_reserved(emb.REPO)

RULE = (
    "cases = (accepted source set, compiler configuration): modules from the layout generator (all features), the write, text, enum, physical-boundary, typed-"
    "expression and scope-tree generators, import pairs, accepted single-token mutations of model programs, the repository's testdata/*.emb, and identifier-"
    "shape modules (names adjacent to generated identifiers: has_x, trailing/double underscores, FooView/FooWriter/GenericFooView, private member names, "
    "emboss_reserved_* locals, kCamelCase collisions, libc macro names, nested-type/namespace overlaps; one shape per module, 9 C++ namespace forms). Rejected "
    "modules are discarded. Oracle: g++ -fsyntax-only under -std=c++11/14/17 (and clang++ in the thorough tier) of the emitted header (included twice) plus a "
    "full-instantiation driver generated from the IR that names every Make*View overload, view alias, Ok/IsComplete/size method, Equals/CopyFrom family, text "
    "method, has_*/field accessor with its Read/Write family, array access and iterators, enum helper, and static_asserts every constant the front end "
    "computed (enumerators per enum_case spelling, constant sizes, min/max sizes, constant virtual fields; constexpr-ness detected by SFINAE, not assumed); the "
    "same with enum traits disabled; and one full build of two translation units including the header (link catches missing inline/ODR) that is run on zeroed "
    "buffers and must report no constant mismatch. Non-trivial = module using >= 3 feature classes (conditional/virtual/array/parameter/alias/nested/enum/"
    "bits/import/odd names); distinct by (module text, configuration)."
)

GXX_CONFIGS = [("g++-c++11", ["g++", "-std=c++11", "-w"]), ("g++-c++14", ["g++", "-std=c++14", "-w"]), ("g++-c++17", ["g++", "-std=c++17", "-w"])]
# the quick tier builds and links under c++14, so its syntax-only pass covers the other two standards
QUICK_SYNTAX = [GXX_CONFIGS[0], GXX_CONFIGS[2]]
CLANG_CONFIGS = [("clang++-c++14", ["clang++", "-std=c++14", "-w"]), ("clang++-c++17", ["clang++", "-std=c++17", "-w"])]


# ---------------------------------------------------------------------------
# sources
# ---------------------------------------------------------------------------

def src_layout(rnd):
    m, feats = semgen.layout_module(rnd)
    return "layout", {"m.emb": semgen.module_text(m)}, "m.emb"


def src_noisy(rnd):
    return "layout-noisy", {"m.emb": semgen.noisy_program_text(rnd)}, "m.emb"


def src_import_pair(rnd):
    for _ in range(6):
        kind, files, main = semgen.import_pair(rnd)
        return "import-pair", files, main


def src_mutated(rnd):
    kind, files, main = semgen.c16_source(rnd)
    return "model-mutated", files, main


def src_physical(rnd):
    b, info = physical.build_base(rnd)
    text, spans = b.render()
    return "physical", {"m.emb": text}, "m.emb"


def src_typed(rnd):
    render, S = typed.build_module(rnd)
    text, spans = render(S)
    # the imported module defines an enum with the same name as the main module: as two C++
    # headers they must live in different namespaces (one namespace cannot hold two `Ee`)
    return "typed", {"m.emb": text, "o.emb": '[(cpp) namespace: "other::mod"]\n' + typed.OTHER_MODULE}, "m.emb"


def src_scopes(rnd):
    b = scopes.Builder(rnd)
    files = b.build()
    # the files of one source set may define types of the same name: as C++ headers that include one
    # another they must live in different namespaces (as for src_typed)
    out = {}
    for k, (name, text) in enumerate(sorted(files.items())):
        lines = text.split("\n")
        at = 0
        while at < len(lines) and (lines[at].startswith("import ") or not lines[at].strip() or lines[at].startswith("#") or lines[at].startswith("--")):
            at += 1
        if "(cpp) namespace" not in text:
            lines.insert(at, '[(cpp) namespace: "scopes::f%d"]' % k)
        out[name] = "\n".join(lines)
    return "scopes", out, "m.emb"


def src_writes(rnd):
    from props import c03_writes as C3

    m = C3.gen_module(rnd)
    return "writes", {"m.emb": semgen.module_text(m)}, "m.emb"


def src_text(rnd):
    from props import c06_text as C6

    m, feats = semgen.layout_module(rnd)
    C6.mark_text_output(rnd, m)
    return "text", {"m.emb": semgen.module_text(m)}, "m.emb"


def src_enums(rnd):
    from props import c19_enums as C19

    text, enums, fields, pos = C19.build_module(rnd)
    return "enums", {"m.emb": text}, "m.emb"


SOURCES = [
    (src_layout, 5),
    (src_noisy, 1),
    (src_import_pair, 2),
    (src_mutated, 2),
    (src_physical, 2),
    (src_typed, 2),
    (src_scopes, 2),
    (src_writes, 1),
    (src_text, 1),
    (src_enums, 2),
]


def pick_source(rnd):
    total = sum(w for _, w in SOURCES)
    x = rnd.randrange(total)
    for fn, w in SOURCES:
        if x < w:
            return fn
        x -= w
    return SOURCES[0][0]


# ---------------------------------------------------------------------------
# case construction (in worker processes)
# ---------------------------------------------------------------------------

def features_of(ir, text):
    feats = set()
    mod = ir.module[0]
    if len(ir.module) > 2:
        feats.add("import")

    def walk(t):
        if t.which_type == "enumeration":
            feats.add("enum")
            return
        if t.which_type != "structure":
            return
        feats.add("bits" if t.addressable_unit == 1 else "struct")
        if t.runtime_parameter:
            feats.add("parameter")
        if t.subtype:
            feats.add("nested")
        for f in t.structure.field:
            nm = f.name.name.text
            if nm.startswith("$"):
                continue
            if f.write_method.which_method == "alias":
                feats.add("alias")
            elif f.read_transform is not None and f.has_field("read_transform"):
                feats.add("virtual")
            else:
                if f.type.which_type == "array_type":
                    feats.add("array")
            ec = f.existence_condition
            if not (ec.type.boolean.has_field("value") and ec.type.boolean.value):
                feats.add("conditional")
            if "__" in nm or nm.endswith("_") or re.search(r"[0-9]", nm):
                feats.add("odd-name")
        for s in t.subtype:
            walk(s)

    for t in mod.type:
        walk(t)
    return feats


DEEP = [True]


def build_case(kind, files, main, shape=None):
    """Compiles in-process; returns None when rejected, else the file set to build."""
    r = emb.compile_files(files, main=main)
    if not r.accepted:
        return {"rejected": True, "kind": kind, "shape": shape, "exc": r.exc, "why": (r.exc_sig or (r.errors[0][0].message.split("\n")[0] if r.errors else "?"))}
    out = {}
    ir = r.ir
    out[main + ".h"] = r.header
    drv = irdriver.IrDriver(ir, text=True, deep=DEEP[0])
    out["driver.cc"] = drv.source(main + ".h")
    out["other.cc"] = drv.second_tu(main + ".h")
    feats = features_of(ir, files[main])
    stats = dict(drv.stats)
    # imported modules: their own headers
    for m in ir.module:
        nm = m.source_file_name
        if nm in ("", main):
            continue
        ri = emb.compile_files(files, main=nm)
        if not ri.accepted:
            return {"rejected": True, "kind": kind, "shape": shape, "exc": ri.exc, "why": "import %s rejected as a main module" % nm}
        out[nm + ".h"] = ri.header
    # the same module without enum traits (no text methods, no enum helpers)
    rn = emb.compile_files(files, main=main, enum_traits=False)
    if rn.accepted:
        out["nt/" + main + ".h"] = rn.header
        drv2 = irdriver.IrDriver(rn.ir, text=False, deep=DEEP[0])
        out["nt/driver.cc"] = drv2.source(main + ".h")
        for m in rn.ir.module:
            nm = m.source_file_name
            if nm in ("", main):
                continue
            ri = emb.compile_files(files, main=nm, enum_traits=False)
            if ri.accepted:
                out["nt/" + nm + ".h"] = ri.header
    return {"rejected": False, "kind": kind, "shape": shape, "files": files, "main": main, "build": out, "features": sorted(feats), "driver_stats": stats}


def norm_msg(err):
    line = next((l for l in err.split("\n") if re.search(r"\berror\b", l)), err.strip().split("\n")[0] if err.strip() else "?")
    line = re.sub(r"^.*?error:\s*", "", line)
    line = re.sub(r"‘[^’]*’|'[^']*'", "'_'", line)
    line = re.sub(r"[0-9]+", "N", line)
    return line[:90]


def shard(idx, seed, n, n_names, avoid):
    stats = vlib.Stats()
    cases = []
    rnd = random.Random(seed * 7919 + idx)
    for i in range(n):
        fn = pick_source(rnd)
        sub = random.Random(rnd.randrange(2**62))
        try:
            kind, files, main = fn(sub)
        except Exception:
            raise
        if sub.random() < 0.3 and kind not in ("corpus",):
            # the same module in one of the namespace forms of the identifier-shape catalogue: every
            # feature of the generated code meets every kind of enclosing namespace
            ns = sub.choice([x for x in names.CPP_NAMESPACES if x])
            text, nsub = re.subn(r'\[\(cpp\) namespace: "[^"]*"\]', '[(cpp) namespace: "%s"]' % ns, files[main], count=1)
            if nsub:
                files = dict(files)
                files[main] = text
        cases.append(build_case(kind, files, main))
    for i in range(n_names):
        sub = random.Random(rnd.randrange(2**62))
        # round-robin over the catalogue, so that every shape is part of every run
        shape, text = names.build(sub, avoid=avoid, index=seed + idx * n_names + i)
        cases.append(build_case("names", {"m.emb": text}, "m.emb", shape=shape))
    stats.extra["_cases"] = cases
    return stats


# ---------------------------------------------------------------------------
# evaluation
# ---------------------------------------------------------------------------

def evaluate(ctx, stats, cases, tag, clang=False):
    link_std = "c++14" if ctx.quick else "c++11"
    root = os.path.join(ctx.tmp, tag)
    live = []
    for i, c in enumerate(cases):
        if c is None or c.get("rejected"):
            stats.discards += 1
            if c is not None:
                stats.classes["rejected:" + c["kind"]] += 1
                if c.get("exc"):
                    stats.classes["rejected-by-exception (C16's subject)"] += 1
            continue
        d = os.path.join(root, "m%d" % i)
        farm.write_files(d, c["build"])
        c["dir"] = d
        live.append(c)
    jobs = []
    index = []
    configs = (QUICK_SYNTAX if ctx.quick else GXX_CONFIGS) + (CLANG_CONFIGS if clang else [])
    for ci, c in enumerate(live):
        for k, (name, cmd) in enumerate(configs):
            if ctx.quick and len(configs) == 2 and k != ci % 2:
                continue  # quick: c++11 and c++17 alternate over the modules (c++14 is the linked build)
            jobs.append((c["dir"], "driver.cc", cmd, []))
            index.append((c, name))
        if "nt/driver.cc" in c["build"]:
            jobs.append((os.path.join(c["dir"], "nt"), "driver.cc", GXX_CONFIGS[1][1], []))
            index.append((c, "g++-c++14-no-enum-traits"))
    results = farm.syntax_only(jobs)
    for (c, cfg), (d, ok, err) in zip(index, results):
        nontrivial = len(c["features"]) >= 3
        stats.case([c["files"], cfg], nontrivial, ["config:" + cfg, "source:" + c["kind"]] + (["shape:" + c["shape"]] if c["shape"] else []), sample={"kind": c["kind"], "shape": c["shape"], "config": cfg, "features": c["features"], "instantiated": c["driver_stats"], "module_head": c["files"][c["main"]][:300]})
        if not ok:
            stats.fail({"kind": "accepted-module-does-not-compile", "shape": c["shape"] or c["kind"], "msg": norm_msg(err)}, {"files": c["files"], "main": c["main"], "config": cfg, "shape": c["shape"]}, "%s\n%s" % (cfg, err[-3500:]))
            c["failed"] = True
    # full build + link of two translation units + run, for the modules that passed
    good = [c for c in live if not c.get("failed")]
    builds = farm.build_all([(c["dir"], "driver.cc", "driver", ["g++", "-std=" + link_std, "-O0", "-w", os.path.join(c["dir"], "other.cc")], []) for c in good])
    runs = []
    for c, (d, ok, err) in zip(good, builds):
        stats.case([c["files"], "link"], len(c["features"]) >= 3, ["config:g++-%s-link-2-TUs-and-run" % link_std, "source:" + c["kind"]])
        if not ok:
            stats.fail({"kind": "accepted-module-does-not-link", "shape": c["shape"] or c["kind"], "msg": norm_msg(err)}, {"files": c["files"], "main": c["main"], "config": "link", "shape": c["shape"]}, err[-3500:])
        else:
            runs.append(c)
    outs = farm.run_all([(c["dir"], "driver", "") for c in runs])
    for c, (rc, out, err) in zip(runs, outs):
        for f in c["features"]:
            stats.classes["feature:" + f] += 1
        mm = re.search(r"STATIC-CONSTANTS (\d+)", out)
        stats.extra["static_asserted_constants"] = stats.extra.get("static_asserted_constants", 0) + c["driver_stats"]["static_asserts"]
        stats.extra["runtime_checked_constants"] = stats.extra.get("runtime_checked_constants", 0) + c["driver_stats"]["runtime_constants"]
        if "CONSTANT-MISMATCH" in out:
            what = re.findall(r"CONSTANT-MISMATCH (\S+)", out)
            stats.fail({"kind": "constant-differs-from-front-end", "shape": c["shape"] or c["kind"], "msg": "virtual field constant"}, {"files": c["files"], "main": c["main"], "config": "run", "shape": c["shape"]}, "mismatching constants: %s" % what[:10])
        elif rc != 0 or "DONE" not in out:
            # a crash of checked calls on zeroed buffers is C04's subject; counted, not reported here
            stats.extra["driver_run_abnormal"] = stats.extra.get("driver_run_abnormal", 0) + 1
            print("NOTE: instantiation driver ended abnormally (rc=%s) for a %s module; see C04" % (rc, c["kind"]))
    shutil.rmtree(root, ignore_errors=True)


def corpus_cases(ctx):
    corp = emb.corpus()
    names_ = [n for n in sorted(corp) if n.startswith("testdata/") and "/format/" not in n and "/golden/" not in n]
    if ctx.quick:  # a seeded quarter of the corpus per quick run; all of it in the thorough tier
        names_ = sorted(random.Random(ctx.seed).sample(names_, max(1, len(names_) // 4)))
    return [build_case("corpus", dict(corp), n) for n in names_]


def check_one(case):
    """-> (ok, message) re-building one saved case under its configuration (replay, ddmin)."""
    c = build_case(case.get("shape") and "names" or "replay", case["files"], case["main"], case.get("shape"))
    if c.get("rejected"):
        return True, "rejected by the compiler: %s" % (c["why"],)
    import tempfile

    d = tempfile.mkdtemp(prefix="verif_c07_")
    try:
        farm.write_files(d, c["build"])
        cfgs = dict(GXX_CONFIGS + CLANG_CONFIGS)
        cfg = case.get("config", "g++-c++14")
        if cfg == "g++-c++14-no-enum-traits":
            res = farm.syntax_only([(os.path.join(d, "nt"), "driver.cc", cfgs["g++-c++14"], [])])[0]
            return res[1], res[2]
        if cfg in cfgs:
            res = farm.syntax_only([(d, "driver.cc", cfgs[cfg], [])])[0]
            return res[1], res[2]
        b = farm.build_all([(d, "driver.cc", "driver", ["g++", "-std=c++11", "-O0", "-w", os.path.join(d, "other.cc")], [])])[0]
        if not b[1]:
            return False, b[2]
        rc, out, err = farm.run_exe(d, "driver", "")
        return "CONSTANT-MISMATCH" not in out, out[-2000:]
    finally:
        shutil.rmtree(d, ignore_errors=True)


def minimiser(sig, case, detail):
    """Line ddmin of the main file, keeping the same normalised compiler message."""
    if sig.get("kind") != "accepted-module-does-not-compile" or case.get("shape"):
        return None, None  # identifier-shape modules are minimal by construction
    main = case["main"]
    lines = case["files"][main].split("\n")

    def still(sub):
        c2 = dict(case)
        c2["files"] = dict(case["files"])
        c2["files"][main] = "\n".join(sub)
        ok, msg = check_one(c2)
        return (not ok) and norm_msg(msg) == sig["msg"]

    small = vlib.ddmin(lines, still, max_tests=80)
    c2 = dict(case)
    c2["files"] = dict(case["files"])
    c2["files"][main] = "\n".join(small)
    ok, msg = check_one(c2)
    if ok:
        return None, None
    return c2, "%s\n%s" % (case.get("config"), msg[-3000:])


def known_shapes(ctx):
    out = []
    for kf in ctx.known:
        if kf.get("status") == "known" and kf.get("shape"):
            out.append(kf["shape"])
    return out


def run(ctx):
    ctx.rule = RULE
    ctx.assumptions = [
        "g++ 12 (-std=c++11/14/17) and clang++ 14 (thorough) on x86-64 Linux; other compilers the project supports are not run",
        "instantiation means naming the documented members (cpp-reference.md) so that templates are instantiated; iterators over arrays inside bits are not named (the runtime library does not provide them for bit storage)",
        "external types defined by a module are not instantiated (they need user C++)",
        "modules the compiler rejects are discarded; the compiler deciding to accept is not judged here (C13/C14)",
    ]
    stats = vlib.Stats()
    DEEP[0] = not ctx.quick
    avoid = set(known_shapes(ctx))
    nsh, per, per_names = ctx.pick((16, 3, 2), (16, 14, 6))
    total = vlib.run_shards(shard, nsh, seed=ctx.seed, n=per, n_names=per_names, avoid=avoid)
    cases = total.extra.pop("_cases", [])
    t_gen = ctx.elapsed()
    # run_shards merges `extra` by setdefault for non-numeric values: gather all shards' cases explicitly
    stats.merge(total)
    evaluate(ctx, stats, cases, "gen", clang=not ctx.quick)
    evaluate(ctx, stats, corpus_cases(ctx), "corpus", clang=not ctx.quick)
    # every recorded (not repaired) identifier clash is re-run from its shape so that it is reported while it lasts
    known_cases = []
    S = names.shapes()
    for i, shp in enumerate(sorted(avoid)):
        if shp in S:
            for j in range(1 if ctx.quick else 3):
                sub = random.Random(ctx.seed * 31 + i * 7 + j)
                shape, text = names.build(sub, avoid=set(S) - {shp})
                known_cases.append(build_case("names", {"m.emb": text}, "m.emb", shape=shape))
    if known_cases:
        evaluate(ctx, stats, known_cases, "known")
    stats.extra["excluded_by_known_finding_shapes"] = sorted(avoid)
    stats.extra["seconds_generation"] = round(t_gen, 1)
    stats.extra["seconds_total_before_minimisation"] = round(ctx.elapsed(), 1)
    ctx.stats = stats
    return ctx.finish(minimiser)


def replay(ctx, data):
    ok, msg = check_one(data["case"])
    print(msg[-1500:])
    return ok
