"""C19 — enum names, values and C++ representation match the definition."""

import os
import random
import re
import shutil

import vlib
from vlib import emb
from cppfarm import farm

PROPERTY = "C19"

RULE = (
    "cases = (enum, probe): generated enums (1-12 values, duplicate values, 0, +-1, +-2^31, +-2^63, 2^64-1, explicit is_signed, maximum_bits 1..64, "
    "enum_case SHOUTY / kCamel / both at module-, struct-, enum- and value-level, top-level / nested / inline enums) compiled to C++; probes = every declared name, "
    "its case-converted spellings, mutated names, '', numerals; every declared value +-1 and the type limits; enum fields of legal widths read with named and "
    "unnamed raw values. Oracle straight from the model: underlying signedness and width, enumerator value per spelling, TryToGetEnumFromName (declared Emboss "
    "names only), TryToGetNameFromEnum (first declared name or null), EnumIsKnown, operator<<, field Read. Non-trivial = enum with a duplicate value, a value "
    "beyond 32 bits, or a non-default enum_case; distinct by (enum definition, probe)."
)

WORDS = ["FOO", "BAR", "BAZ", "QUX", "UPPER", "LOWER", "RANGE", "LIMIT", "AB", "X1", "MODE", "FAN", "HIGH", "LOW"]


def k_camel(name):
    return "k" + "".join(w[:1].upper() + w[1:].lower() for w in name.split("_"))


class EnumModel(object):
    def __init__(self, name, path):
        self.name = name
        self.path = path  # C++ scope path, e.g. ["Foo"] for nested
        self.values = []  # (NAME, int, [cases])
        self.is_signed = None
        self.maximum_bits = None
        self.enum_default_case = None  # "$default" inside enum
        self.lines = []

    def signed(self):
        return self.is_signed if self.is_signed is not None else any(x[1] < 0 for x in self.values)

    def bits(self):
        return self.maximum_bits if self.maximum_bits is not None else 64

    def underlying(self):
        b = self.bits()
        return next(s for s in (8, 16, 32, 64) if b <= s)


def gen_name(rnd, used, used_camel):
    for _ in range(50):
        n = "_".join(rnd.choice(WORDS) for _ in range(rnd.choice([1, 1, 2, 2, 3])))
        if rnd.random() < 0.1:
            n += "_%d" % rnd.randrange(10)
        if len(n) < 2 or not re.fullmatch(r"[A-Z][A-Z_0-9]*[A-Z_][A-Z_0-9]*", n):
            continue
        if n in used or k_camel(n) in used_camel:
            continue  # distinct names that collide after kCamelCase conversion are a recorded C07 finding: avoided by construction
        used.add(n)
        used_camel.add(k_camel(n))
        return n
    return None


def gen_enum(rnd, name, path, inherited_cases):
    e = EnumModel(name, path)
    kind = rnd.choice(["small", "small", "wide-unsigned", "signed", "maxbits", "signed-maxbits", "dups"])
    nvals = rnd.randrange(1, 9)
    used, used_camel = set(), set()
    pool = []
    if kind in ("small", "dups"):
        pool = [0, 1, 2, 3, 5, 7, 100, 255]
    elif kind == "wide-unsigned":
        pool = [0, 1, 2**31, 2**32 - 1, 2**32, 2**63 - 1, 2**63, 2**64 - 1, 2**64 - 2]
    elif kind == "signed":
        pool = [-1, 0, 1, -(2**31), 2**31 - 1, -(2**63), 2**63 - 1, -2, 100]
        if rnd.random() < 0.5:
            e.is_signed = True
    elif kind == "maxbits":
        mb = rnd.choice([1, 2, 7, 8, 9, 16, 31, 32, 33, 63, 64])
        e.maximum_bits = mb
        pool = [0, 1, 2**mb - 1, 2 ** (mb - 1)]
        if rnd.random() < 0.3:
            e.is_signed = False
    else:
        mb = rnd.choice([2, 8, 16, 17, 32, 64])
        e.maximum_bits = mb
        e.is_signed = True
        pool = [-(2 ** (mb - 1)), 2 ** (mb - 1) - 1, -1, 0, 1]
    enum_cases = inherited_cases
    if rnd.random() < 0.35:
        enum_cases = rnd.choice([["SHOUTY_CASE"], ["kCamelCase"], ["SHOUTY_CASE", "kCamelCase"], ["kCamelCase", "SHOUTY_CASE"]])
        e.enum_default_case = enum_cases
    for i in range(nvals):
        n = gen_name(rnd, used, used_camel)
        if n is None:
            break
        v = rnd.choice(pool)
        if kind == "dups" and e.values and rnd.random() < 0.5:
            v = rnd.choice(e.values)[1]
        cases = list(enum_cases)
        own = None
        if rnd.random() < 0.12:
            own = rnd.choice([["SHOUTY_CASE"], ["kCamelCase"], ["kCamelCase", "SHOUTY_CASE"]])
            cases = own
        e.values.append((n, v, cases, own))
    if e.is_signed is False and any(v < 0 for _, v, _, _ in e.values):
        e.is_signed = None
    return e


def enum_lines(e, indent):
    pad = "  " * indent
    L = []
    if e.maximum_bits is not None:
        L.append(pad + "  [maximum_bits: %d]" % e.maximum_bits)
    if e.is_signed is not None:
        L.append(pad + "  [is_signed: %s]" % ("true" if e.is_signed else "false"))
    if e.enum_default_case:
        L.append(pad + '  [(cpp) $default enum_case: "%s"]' % ", ".join(e.enum_default_case))
    for n, v, cases, own in e.values:
        attr = ('  [(cpp) enum_case: "%s"]' % ", ".join(own)) if own else ""
        L.append(pad + "  %s = %d%s" % (n, v, attr))
    return L


def spelling(name, case):
    return name if case == "SHOUTY_CASE" else k_camel(name)


def build_module(rnd):
    lines = ['[$default byte_order: "LittleEndian"]', '[(cpp) namespace: "v::en"]']
    module_cases = ["SHOUTY_CASE"]
    if rnd.random() < 0.3:
        module_cases = rnd.choice([["kCamelCase"], ["SHOUTY_CASE", "kCamelCase"], ["kCamelCase", "SHOUTY_CASE"]])
        lines.append('[(cpp) $default enum_case: "%s"]' % ", ".join(module_cases))
    enums = []
    for i in range(rnd.choice([1, 2, 3])):
        e = gen_enum(rnd, "Top%dx" % i, [], module_cases)
        lines.append("enum %s:" % e.name)
        lines += enum_lines(e, 0)
        enums.append(e)
    # a struct with its own $default enum_case, a nested enum and an inline enum field
    struct_cases = module_cases
    lines.append("struct Holder:")
    if rnd.random() < 0.4:
        struct_cases = rnd.choice([["kCamelCase"], ["SHOUTY_CASE"], ["SHOUTY_CASE", "kCamelCase"]])
        lines.append('  [(cpp) $default enum_case: "%s"]' % ", ".join(struct_cases))
    ne = gen_enum(rnd, "Nested", ["Holder"], struct_cases)
    lines.append("  enum Nested:")
    lines += enum_lines(ne, 1)
    enums.append(ne)
    ie = gen_enum(rnd, "Kind", ["Holder"], struct_cases)
    while ie.maximum_bits is not None or ie.is_signed is not None or ie.enum_default_case:
        # the body of an inline enum field cannot carry enum-level attributes
        ie = gen_enum(rnd, "Kind", ["Holder"], struct_cases)
    # fields: every enum gets a field of a legal width
    pos = 0
    fields = []
    fb = ((max(ie.bits() if ie.maximum_bits else 8, 8) + 7) // 8) * 8 if ie.maximum_bits is None or ie.maximum_bits % 8 == 0 else None
    if ie.maximum_bits is not None and ie.maximum_bits % 8 != 0:
        ie.maximum_bits = ((ie.maximum_bits + 7) // 8) * 8 if ie.maximum_bits < 64 else 64
    iw = ie.bits() if ie.maximum_bits is not None else 8 * rnd.choice([1, 2, 4, 8])
    lines.append("  %d [+%d]  enum  kind:" % (pos, iw // 8))
    lines += enum_lines(ie, 2)
    enums.append(ie)
    fields.append(("kind", ie, pos, iw))
    pos += iw // 8
    for e in enums[:-1]:
        if e.maximum_bits is not None and e.maximum_bits % 8 != 0:
            continue  # only placeable inside bits; covered by C02/C03
        w = e.bits() if e.maximum_bits is not None else 8 * rnd.choice([1, 2, 4, 8])
        tn = e.name if not e.path or e.path == ["Holder"] else ".".join(e.path + [e.name])
        fname = "f%d" % pos
        lines.append("  %d [+%d]  %s  %s" % (pos, w // 8, tn, fname))
        fields.append((fname, e, pos, w))
        pos += w // 8
    # narrow enum fields inside a bits block (unsigned enums only: narrow signed enums are a recorded finding)
    cands = [e for e in enums if not e.signed() and e.maximum_bits is None and e is not ie]
    if cands:
        lines.append("  %d [+2]  bits:" % pos)
        off = 0
        for w in rnd.sample([1, 2, 3, 5, 7, 12, 9, 4], 3):
            if off + w > 16:
                continue
            e = rnd.choice(cands)
            tn = e.name if not e.path or e.path == ["Holder"] else ".".join(e.path + [e.name])
            fname = "n%d_%d" % (w, off)
            lines.append("    %d [+%d]  %s  %s" % (off, w, tn, fname))
            fields.append((fname, e, pos, w, off, 16))
            off += w
        pos += 2
    return "\n".join(lines) + "\n", enums, fields, pos


def cpp_literal(v):
    if v == -(2**63):
        return "(-9223372036854775807LL - 1)"
    if v < 0:
        return "%dLL" % v
    return "%dULL" % v


def cpp_enum_name(e):
    return "::v::en::" + "::".join(e.path + [e.name])


def probe_names(rnd, e):
    out = []
    for n, v, cases, own in e.values:
        out.append(n)
        out.append(k_camel(n))
        out.append(n.lower())
        out.append(n + "_")
        out.append(n[:-1])
        out.append(" " + n)
    out += ["", "1", "0", str(e.values[0][1]) if e.values else "2", "NOPE", "k"]
    return sorted(set(out))


def probe_values(e):
    sgn = e.signed()
    u = e.underlying()
    lo, hi = (-(2 ** (u - 1)), 2 ** (u - 1) - 1) if sgn else (0, 2**u - 1)
    vals = set([lo, hi, 0, 1])
    for n, v, c, o in e.values:
        vals |= {v, v - 1, v + 1}
    return sorted(v for v in vals if lo <= v <= hi)


def driver_source(enums, fields, total, bufs):
    L = ['#include "m.emb.h"', "#include <cstdio>", "#include <sstream>", "#include <string>", "#include <type_traits>", "#include <cstring>",
         "static void P(const std::string &k, const std::string &v) { std::printf(\"%s=%s\\n\", k.c_str(), v.c_str()); }",
         "template <class T> static std::string N(T v) { return std::is_signed<T>::value ? std::to_string(static_cast<long long>(v)) : std::to_string(static_cast<unsigned long long>(v)); }",
         "int main() {"]
    expect = []
    rnd = random.Random(len(enums) * 7919 + total)
    for ei, e in enumerate(enums):
        T = cpp_enum_name(e)
        key = "e%d" % ei
        L.append("  { typedef %s E; typedef std::underlying_type<E>::type U;" % T)
        L.append("    P(\"%s.signed\", std::is_signed<U>::value ? \"1\" : \"0\"); P(\"%s.size\", std::to_string(sizeof(U)));" % (key, key))
        expect.append((key + ".signed", "1" if e.signed() else "0"))
        expect.append((key + ".size", str(e.underlying() // 8)))
        for n, v, cases, own in e.values:
            for c in cases:
                sp = spelling(n, c)
                L.append("    P(\"%s.val.%s\", N(static_cast<U>(E::%s)));" % (key, sp, sp))
                expect.append(("%s.val.%s" % (key, sp), str(v)))
        declared = {}
        for n, v, c, o in e.values:
            declared.setdefault(n, v)
        for pn in probe_names(rnd, e):
            esc = pn.replace("\\", "\\\\").replace('"', '\\"')
            L.append("    { E r = static_cast<E>(0); bool ok = %s::TryToGetEnumFromName(\"%s\", &r); P(\"%s.from.%s\", ok ? std::string(\"1:\") + N(static_cast<U>(r)) : std::string(\"0\")); }" % ("::v::en" + ("::" + "::".join(e.path) if e.path else ""), esc, key, esc))
            expect.append(("%s.from.%s" % (key, pn), ("1:%d" % declared[pn]) if pn in declared else "0"))
        first = {}
        for n, v, c, o in e.values:
            first.setdefault(v, n)
        for pv in probe_values(e):
            lit = cpp_literal(pv)
            ns = "::v::en" + ("::" + "::".join(e.path) if e.path else "")
            L.append("    { E x = static_cast<E>(%s); const char *nm = %s::TryToGetNameFromEnum(x); std::ostringstream os; os << x; P(\"%s.name.%d\", std::string(nm ? nm : \"<null>\") + \"|\" + (%s::EnumIsKnown(x) ? \"1\" : \"0\") + \"|\" + os.str()); }" % (lit, ns, key, pv, ns))
            nm = first.get(pv)
            # operator<< of an unnamed value streams the underlying integer; for 8-bit
            # underlying types that is a char in C++ and the documentation does not say
            # which rendering is meant, so the streamed text is not compared there ("*")
            os_text = nm if nm else (str(pv) if e.underlying() > 8 else "*")
            expect.append(("%s.name.%d" % (key, pv), "%s|%s|%s" % (nm if nm else "<null>", "1" if nm else "0", os_text)))
        L.append("  }")
    # enum fields: raw values, named and unnamed
    for bi, b in enumerate(bufs):
        L.append("  { unsigned char buf[%d] = {%s}; auto v = ::v::en::MakeHolderView(buf, sizeof(buf));" % (max(1, len(b)), ", ".join(str(x) for x in b) or "0"))
        for fld in fields:
            fname, e, pos, w = fld[:4]
            L.append("    { auto f = v.%s(); bool ok = f.Ok(); P(\"b%d.%s\", ok ? N(static_cast<std::underlying_type<decltype(f.Read())>::type>(f.Read())) : std::string(\"!ok\")); }" % (fname, bi, fname))
            if len(fld) > 4:
                off, blk = fld[4], fld[5]
                raw = (int.from_bytes(bytes(b[pos : pos + blk // 8]), "little") >> off) & ((1 << w) - 1)
                expect.append(("b%d.%s" % (bi, fname), str(raw), ""))
                continue
            raw = int.from_bytes(bytes(b[pos : pos + w // 8]), "little")
            val = raw
            if e.signed() and raw >= 2 ** (w - 1) and w == e.underlying():
                val = raw - 2**w
            signed_narrow = e.signed() and w < e.underlying()
            expect.append(("b%d.%s" % (bi, fname), str(val if not signed_narrow else (raw - 2**w if raw >= 2 ** (w - 1) else raw)), "signed-narrow" if signed_narrow else ""))
        L.append("  }")
    # enum fields accept any in-range value, named or not, and nothing else
    L.append("  { unsigned char buf[%d]; std::memset(buf, 0, sizeof(buf)); auto v = ::v::en::MakeHolderView(buf, sizeof(buf));" % max(1, total))
    for fld in fields:
        fname, e, pos, w = fld[:4]
        if e.signed() and w < e.underlying():
            continue  # recorded finding: narrow signed enum fields
        u = e.underlying()
        lo, hi = (-(2 ** (u - 1)), 2 ** (u - 1) - 1) if e.signed() else (0, 2**u - 1)
        flo, fhi = (-(2 ** (w - 1)), 2 ** (w - 1) - 1) if e.signed() else (0, 2**w - 1)
        probes = set([0, 1, fhi, fhi - 1, fhi + 1, flo, flo - 1, hi, lo] + [x[1] for x in e.values] + [x[1] + 1 for x in e.values])
        for pv in sorted(x for x in probes if lo <= x <= hi):
            T = cpp_enum_name(e)
            L.append("    { auto f = v.%s(); %s x = static_cast<%s>(%s); bool c = f.CouldWriteValue(x); bool t = f.TryToWrite(x); bool rb = t && f.Read() == x; P(\"w.%s.%d\", std::string(c ? \"1\" : \"0\") + (t ? \"1\" : \"0\") + (rb ? \"1\" : \"0\")); }" % (fname, T, T, cpp_literal(pv), fname, pv))
            ok = flo <= pv <= fhi
            expect.append(("w.%s.%d" % (fname, pv), "111" if ok else "000", ""))
        # the same through the text format: a number (any in-range value, named or not) and the declared names
        tprobes = sorted(set(x for x in [0, 1, fhi, flo, -1, -3] + [x[1] for x in e.values] if lo <= x <= hi and -(2**63) <= x <= 2**63 - 1))[:8]
        for pv in tprobes:
            T = cpp_enum_name(e)
            L.append("    { auto f = v.%s(); bool r = ::emboss::UpdateFromText(f, std::string(\"%d\")); bool rb = r && f.Read() == static_cast<%s>(%s); P(\"t.%s.%d\", std::string(r ? \"1\" : \"0\") + (rb ? \"1\" : \"0\")); }" % (fname, pv, T, cpp_literal(pv), fname, pv))
            ok = flo <= pv <= fhi
            expect.append(("t.%s.%d" % (fname, pv), "11" if ok else "00", ""))
        seen_names = set()
        for n, val, cases, own in e.values[:4]:
            if n in seen_names:
                continue
            seen_names.add(n)
            T = cpp_enum_name(e)
            L.append("    { auto f = v.%s(); bool r = ::emboss::UpdateFromText(f, std::string(\"%s\")); bool rb = r && f.Read() == static_cast<%s>(%s); P(\"tn.%s.%s\", std::string(r ? \"1\" : \"0\") + (rb ? \"1\" : \"0\")); }" % (fname, n, T, cpp_literal(val), fname, n))
            first_val = next(x[1] for x in e.values if x[0] == n)
            ok = flo <= first_val <= fhi
            expect.append(("tn.%s.%s" % (fname, n), "11" if ok else "00", ""))
    L.append("  }")
    L.append("  return 0;")
    L.append("}")
    return "\n".join(L) + "\n", expect


def literal_signed_narrow():
    """Literal reproducer of the known finding C19-signed-enum-not-sign-extended."""
    e = EnumModel("Top0x", [])
    e.is_signed = True
    e.maximum_bits = 16
    e.values = [("NEG_ONE", -1, ["SHOUTY_CASE"], None), ("POS_ONE", 1, ["SHOUTY_CASE"], None)]
    ie = EnumModel("Kind", ["Holder"])
    ie.values = [("AA", 0, ["SHOUTY_CASE"], None)]
    text = '[$default byte_order: "LittleEndian"]\n[(cpp) namespace: "v::en"]\nenum Top0x:\n  [maximum_bits: 16]\n  [is_signed: true]\n  NEG_ONE = -1\n  POS_ONE = 1\nstruct Holder:\n  0 [+1]  enum  kind:\n    AA = 0\n  1 [+1]  Top0x  f1\n'
    return text, [e, ie], [("kind", ie, 0, 8), ("f1", e, 1, 8)], 2


def build_case(seed):
    rnd = random.Random(seed if seed != "literal" else 0)
    text, enums, fields, total = build_module(rnd) if seed != "literal" else literal_signed_narrow()
    r = emb.compile_files({"m.emb": text})
    if not r.accepted:
        return {"rejected": True, "text": text, "why": (r.exc_sig or r.errors[0][0].message.split("\n")[0])}
    bufs = [[0xFF] * total] if seed == "literal" else []
    for _ in range(6):
        k = rnd.random()
        if k < 0.3:
            bufs.append([rnd.choice([0, 1, 2, 0xFF, 0x80, 0x7F])] * total)
        else:
            bufs.append([rnd.choice([0, 1, 2, 3, 5, 7, 100, 255, 0x80, rnd.randrange(256)]) for _ in range(total)])
    src, expect = driver_source(enums, fields, total, bufs)
    return {"rejected": False, "text": text, "header": r.header, "driver": src, "expect": expect, "enums": enums}


def run(ctx):
    ctx.rule = RULE
    ctx.assumptions = [
        "kCamelCase spelling = 'k' + each '_'-separated word capitalised (language-reference example); names that collide after conversion are avoided by construction (recorded under C07)",
        "underlying type = smallest of 8/16/32/64 bits >= maximum_bits (default 64), signed iff is_signed (default: any negative value)",
    ]
    stats = vlib.Stats()
    nmod = ctx.pick(48, 600)
    rnd = random.Random(ctx.seed * 32452843 + 11)
    root = os.path.join(ctx.tmp, "c19")
    cases = []
    for i in range(nmod + 1):
        c = build_case(rnd.randrange(2**62) if i < nmod else "literal")
        if c["rejected"]:
            stats.discards += 1
            stats.classes["rejected:" + str(c["why"])[:70]] += 1
            continue
        d = os.path.join(root, "m%d" % i)
        farm.write_files(d, {"m.emb.h": c["header"], "driver.cc": c["driver"], "m.emb": c["text"]})
        c["dir"] = d
        cases.append(c)
    builds = farm.build_all([(c["dir"], "driver.cc", "driver", farm.GXX, []) for c in cases])
    runs = []
    for c, (d, ok, err) in zip(cases, builds):
        if not ok:
            first = next((l for l in err.split("\n") if "error" in l), err[:200])
            stats.fail({"kind": "does-not-compile", "msg": re.sub(r"[0-9]+", "N", first)[-100:]}, {"text": c["text"]}, err[-3000:])
        else:
            runs.append(c)
    results = farm.run_all([(c["dir"], "driver", "") for c in runs])
    for c, (rc, out, err) in zip(runs, results):
        if rc != 0:
            stats.fail({"kind": "driver-crashed", "rc": rc}, {"text": c["text"]}, err[-2000:])
            continue
        got = dict(l.split("=", 1) for l in out.split("\n") if "=" in l)
        interesting = any(len(set(v for _, v, _, _ in e.values)) < len(e.values) or any(abs(v) >= 2**32 for _, v, _, _ in e.values) or any(cs != ["SHOUTY_CASE"] for _, _, cs, _ in e.values) for e in c["enums"])
        nfail = 0
        for item in c["expect"]:
            k, v = item[0], item[1]
            stats.case([c["text"], k], interesting, ["field-write" if k.startswith("w.") else "field-text" if k.startswith(("t.", "tn.")) else (k.split(".")[1] if "." in k and k.startswith("e") else "field-read")], sample={"probe": k, "expected": v, "module_head": c["text"][:300]} if nfail == 0 and stats.evaluations % 97 == 0 else None)
            g = got.get(k)
            if g is not None and v.endswith("|*"):
                g = g.rsplit("|", 1)[0] + "|*"
            if g != v and nfail < 6:
                nfail += 1
                kind = k.split(".")[1] if k.startswith("e") else ("field-write" if k.startswith("w.") else "field-text" if k.startswith(("t.", "tn.")) else "field-read")
                sig = {"kind": "enum-mismatch", "what": kind, "field": "enum-signed" if (len(item) > 2 and item[2] == "signed-narrow") else "-"}
                stats.fail(sig, {"text": c["text"], "probe": k}, "%s: generated code says %r, the definition says %r" % (k, got.get(k), v))
    shutil.rmtree(root, ignore_errors=True)
    ctx.stats = stats
    return ctx.finish(None)


def replay(ctx, data):
    return True
