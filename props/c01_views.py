"""C01 — generated views report structure state and values exactly as the .emb defines."""

import os
import random
import re
import shutil

from hypothesis import strategies as st

import vlib
from vlib import emb
from embgen import model as M, semgen
from embref import interp as RI
from cppfarm import driver as D, farm

PROPERTY = "C01"

RULE = (
    "cases = (module, structure, parameter values, byte buffer): modules from the embgen layout generator (scalars of all kinds, named/inline/anonymous bits, "
    "nested and parameterised structs, arrays, conditional fields, dynamic offsets/sizes, $next, virtual fields/aliases, [requires], byte-order defaults), "
    "compiled by the real compiler, header compiled with g++ and run on generated buffers: every prefix length of garbage/small-valued/boundary contents; "
    "oracle = embref reference interpreter (line-by-line equality of Ok/IsComplete/SizeIsKnown/size/has_x/x.Ok/Read/array counts) + prefix-monotonicity "
    "of everything reported known. Non-trivial = presence or location of >=1 field depends on buffer/parameters and the reference reports >=1 readable field; "
    "distinct by hash of (module text, struct, params, buffer)."
)


def byte_pool(rnd):
    k = rnd.random()
    if k < 0.45:
        return rnd.choice([0, 1, 2, 3, 4, 5, 8])
    if k < 0.6:
        return rnd.choice([0xFF, 0x80, 0x7F, 0x99, 0x10, 0xAA])
    return rnd.randrange(256)


def gen_buffers(rnd, maxlen, nbase, nprefix):
    out = []
    for i in range(nbase):
        n = maxlen + rnd.choice([0, 1, 3])
        if i == 0:
            base = bytes(byte_pool(rnd) for _ in range(n))
        elif i == 1:
            # runs of boundary bytes, so that multi-byte fields reach their extreme values
            base = b""
            while len(base) < n:
                base += bytes([rnd.choice([0xFF, 0xFF, 0x7F, 0x80, 0x00])]) * rnd.choice([1, 2, 3, 4, 7, 8])
            base = base[:n]
            if rnd.random() < 0.5:
                base = bytes(byte_pool(rnd) if rnd.random() < 0.25 else b for b in base)
        else:
            base = bytes(byte_pool(rnd) for _ in range(n))
        lens = list(range(n + 1)) if n + 1 <= nprefix else sorted(set([0, 1, n, n - 1, max(0, maxlen)] + rnd.sample(range(n + 1), nprefix - 4)))
        out.append((base, lens))
    return out


def discriminant_pins(s):
    """(byte offset, constant) for every `field == constant` condition of s whose field is a
    one-byte unsigned scalar at a static offset."""
    at = {}
    for f in s.fields:
        if not f.is_virtual and not f.is_anon and f.typ is not None and not f.typ.dims and f.typ.kind == "UInt" and f.typ.bits == 8 and f.start[0] == "n" and f.size == ("n", 1):
            at[f.name] = f.start[1]
    pins = set()

    def walk(e):
        if not isinstance(e, tuple):
            return
        if e[0] == "op" and e[1] == "==":
            for a, b in ((e[2], e[3]), (e[3], e[2])):
                if a[0] == "r" and len(a[1]) == 1 and a[1][0] in at and b[0] == "n" and 0 <= b[1] <= 255:
                    pins.add((at[a[1][0]], b[1]))
        for x in e[1:]:
            if isinstance(x, tuple):
                walk(x)
            elif isinstance(x, list):
                for y in x:
                    walk(y)

    for f in s.fields:
        for g in [f] + (f.anon or []):
            walk(g.cond)
    return sorted(pins)


def extreme_buffers(rnd, I, s, params, maxlen, cap=36):
    """Buffers in which multi-byte integer fields at static offsets hold the extremes of their
    range (all ones, sign bit only, all but the sign bit), alone and in pairs: arithmetic over
    fields is only wrong at such values when an intermediate C++ type is too narrow."""
    n = maxlen + 1
    targets = []
    probe = RI.StructView(I, s, params, bytes(n))
    for f in s.fields:
        t = f.typ
        if f.is_virtual or f.is_anon or t is None or t.dims or t.kind not in ("UInt", "Int") or f.start[0] != "n" or f.size[0] != "n":
            continue
        nb = f.size[1]
        if nb < 2 or f.start[1] + nb > n:
            continue
        try:
            bo = RI.effective_byte_order(probe, f)
        except Exception:
            continue
        targets.append((f.start[1], nb, "big" if bo == "BigEndian" else "little"))
    if not targets:
        return []
    out = []

    def put(b, tgt, v):
        off, nb, order = tgt
        return b[:off] + v.to_bytes(nb, order) + b[off + nb :]

    def extremes(nb):
        full = (1 << (8 * nb)) - 1
        return [full, full >> 1, (full >> 1) + 1, full - 1]

    bases = [bytes(n), bytes(byte_pool(rnd) for _ in range(n))]
    for base in bases:
        for tgt in targets:
            for v in extremes(tgt[1]):
                out.append((put(base, tgt, v), [n]))
        for _ in range(6):
            b = base
            for tgt in rnd.sample(targets, min(len(targets), rnd.choice([2, 2, 3]))):
                b = put(b, tgt, rnd.choice(extremes(tgt[1])))
            out.append((b, [n]))
    rnd.shuffle(out)
    return out[:cap]


def repair_to_ok(rnd, I, s, params, b, rounds=16):
    """Local search towards a buffer on which the reference says Ok: repeatedly pick a present
    top-level scalar field at a static offset that is not Ok and overwrite its bytes with another
    value.  Returns the repaired buffer or None."""
    fill = [0x00, 0x01, 0x02, 0x05, 0x09, 0x10, 0x63, 0x64, 0x65, 0x99, 0xC8, 0xC9, 0xFF, 0x80, 0x7F]
    for _ in range(rounds):
        try:
            v = RI.StructView(I, s, params, b)
            if v.ok():
                return b
            bad = []
            for f in s.fields:
                if f.is_virtual or f.is_anon or f.typ is None or f.typ.dims or not f.typ.is_scalar() or f.start[0] != "n" or f.size[0] != "n":
                    continue
                if f.start[1] + f.size[1] > len(b) or v.exists_by_name(f.name) is not True:
                    continue
                if not v.field_view_by_name(f.name).ok():
                    bad.append(f)
        except Exception:
            return None
        if not bad:
            return None
        f = rnd.choice(bad)
        nb = f.size[1]
        first = rnd.choice(fill)
        new = bytes([first] + [rnd.choice([0, 0, first])] * (nb - 1))
        if rnd.random() < 0.5:
            new = new[::-1]
        b = b[: f.start[1]] + new + b[f.start[1] + nb :]
    return None


def near_ok_buffers(rnd, I, s, params, maxlen, want=3, tries=60, max_variants=40):
    """Buffers on which the reference says the view is Ok, plus single-byte corruptions of them.

    Random contents almost never make *every* present field valid at once, so the
    interesting boundary - exactly one present field invalid, everything else fine -
    is unreachable by garbage alone.  Search for Ok buffers with the reference
    interpreter, then damage one byte at a time (0xFF breaks Bcd and most [requires],
    small values flip discriminants and lengths).  Full length only: prefixes are
    covered by gen_buffers."""
    out = []
    found = 0
    pins = discriminant_pins(s)
    for _ in range(tries):
        n = maxlen + rnd.choice([0, 0, 1, 2])
        k = rnd.random()
        if k < 0.35:
            b = bytes(byte_pool(rnd) for _ in range(n))
        elif k < 0.75:
            b = bytes(rnd.choice([0, 0, 0, 1, 2, 3, 4, 5]) for _ in range(n))
        else:
            b = bytes([rnd.choice([0, 1, 2, 0x11, 0x22])] * n)
        if pins and rnd.random() < 0.6:
            # make a `tag == constant` condition true, so that guarded fields are present
            off, c = rnd.choice(pins)
            if off < n:
                b = b[:off] + bytes([c]) + b[off + 1 :]
        try:
            ok = RI.StructView(I, s, params, b).ok()
        except Exception:
            ok = False
        if not ok:
            b = repair_to_ok(rnd, I, s, params, b)
            if b is None:
                continue
        found += 1
        out.append((b, [len(b)]))
        positions = list(range(len(b)))
        rnd.shuffle(positions)
        for i in positions[: max_variants // 2]:
            for v in (0xFF, rnd.choice([0, 1, 2, 3, 4, 5, 0x7F, 0x80, 0x9A, 0xA0, 100, 200])):
                if b[i] != v:
                    out.append((b[:i] + bytes([v]) + b[i + 1 :], [len(b)]))
        if found >= want:
            break
    return out


def struct_maxlen(s):
    hi = 0
    for f in s.fields:
        if f.is_virtual:
            continue
        if f.start[0] == "n" and f.size[0] == "n":
            hi = max(hi, f.start[1] + f.size[1])
        else:
            hi = max(hi, min(getattr(f, "end_max", 24), 40))
    return min(hi, 48)


def set_cpp_names(module):
    ns = D.cpp_ns(module)
    for t in module.types:
        if isinstance(t, M.Struct):
            for pn, pt in t.params:
                if pt.kind == "enum":
                    pt.cpp_name = ns + "::" + pt.name.replace(".", "::")


def param_values(rnd, s):
    vals = []
    for pn, pt in s.params:
        if pt.kind == "enum":
            vs = [v for _, v in pt.target.values]
            vals.append(rnd.choice(vs + [max(vs) + 1]))
        else:
            vals.append(rnd.choice([0, 1, 2, 3, 5, 8, 200, 255]))
    return vals


def literal_array_module():
    """The literal reproducer of known finding C01-array-on-truncated-buffer."""
    m = M.Module("m.emb")
    m.default_byte_order = "LittleEndian"
    m.namespace = "v::ns"
    s = M.Struct("struct", "Foo")
    f = M.Field("xs", ("n", 1), ("n", 4), M.Type("UInt", 8, explicit=True, dims=[("n", 4)]))
    s.fields.append(f)
    m.types.append(s)
    semgen.set_parents(s, None)
    return m, {"array", "literal-known-finding"}


def switch_family_case(k, seed):
    """A parametric family that is always part of the run: a tag followed by N members guarded by
    `tag == c` (same c repeated, some with reversed operands, a second case interleaved), every
    member one byte with a [requires] or of type Bcd.  Buffers: all members valid, then each member
    invalid in turn, for each case value - so every member of every case must take part in Ok()."""
    rnd = random.Random(seed * 1000003 + k)
    m = M.Module("m.emb")
    m.default_byte_order = "LittleEndian"
    m.namespace = "v::ns"
    st_ = M.Struct("struct", "Sw")
    tag = M.Field("tag", ("n", 0), ("n", 1), M.Type("UInt", 8))
    st_.fields.append(tag)
    c1, c2 = rnd.sample([0, 1, 2, 3, 7, 200], 2)
    n = rnd.randrange(3, 7)
    members = []
    for j in range(n):
        c = c1 if (j < 3 or rnd.random() < 0.6) else c2
        cond = ("op", "==", ("r", ("tag",)), ("n", c)) if rnd.random() < 0.75 else ("op", "==", ("n", c), ("r", ("tag",)))
        kind = rnd.choice(["Bcd", "UInt", "UInt"])
        f = M.Field("m%d" % j, ("n", 1 + j), ("n", 1), M.Type(kind, 8))
        if kind == "UInt":
            f.requires = ("op", "<", ("r", ("this",)), ("n", rnd.choice([10, 100, 200])))
        f.cond = cond
        st_.fields.append(f)
        members.append((f, c))
    if rnd.random() < 0.5:
        tail = M.Field("tail", ("n", 1 + n), ("n", 1), M.Type("UInt", 8))
        st_.fields.append(tail)
    m.types.append(st_)
    semgen.set_parents(st_, None)
    total = 2 + n

    def plan(s):
        out = []
        for c in (c1, c2, 9):
            good = bytes([c] + [1] * (total - 1))
            out.append((good, [len(good)]))
            for j in range(n):
                bad = good[: 1 + j] + b"\xff" + good[2 + j :]
                out.append((bad, [len(bad)]))
        return out

    return build_case_model(m, {"switch-family", "conditional", "requires"}, rnd, 0, 0, buffer_plan=plan)


def param_family_case(k, seed):
    """Always part of the run: a field whose type takes two or three run-time arguments, each argument read
    from a field stored AFTER the parameterised field itself (one of them possibly conditional), viewed
    over every prefix of the message - so every subset "this argument is not readable yet, the others are"
    occurs, for every argument position."""
    rnd = random.Random(seed * 1000081 + k)
    m = M.Module("m.emb")
    m.default_byte_order = "LittleEndian"
    m.namespace = "v::ns"
    nargs = 2 + (k % 2)
    inner = M.Struct("struct", "Inner")
    pn = ["pa", "pb", "pc"][:nargs]
    for n_ in pn:
        inner.params.append((n_, M.Type("UInt", 8, explicit=True)))
    inner.fields.append(M.Field("x", ("n", 0), ("n", 1), M.Type("UInt", 8)))
    which = pn[(k // 2) % nargs]
    y = M.Field("y", ("n", 1), ("n", 1), M.Type("UInt", 8))
    y.cond = ("op", "==", ("r", (which,)), ("n", 0))
    inner.fields.append(y)
    total_e = ("r", ("x",))
    for n_ in pn:
        total_e = ("op", "+", total_e, ("r", (n_,)))
    inner.fields.append(M.Field("sum", value=total_e))
    outer = M.Struct("struct", "Outer")
    order = list(range(nargs))
    rnd.shuffle(order)  # where each argument is stored, relative to the others
    t = M.Type("struct", name="Inner")
    t.target = inner
    t.args = [("r", ("a%d" % i,)) for i in range(nargs)]
    outer.fields.append(M.Field("inner", ("n", 0), ("n", 2), t))
    cond_arg = rnd.choice([None] + list(range(nargs)))
    for pos, i in enumerate(order):
        f = M.Field("a%d" % i, ("n", 2 + pos), ("n", 1), M.Type("UInt", 8))
        if cond_arg == i:
            f.cond = ("op", "==", ("r", ("sel",)), ("n", 1))
        outer.fields.append(f)
    outer.fields.append(M.Field("sel", ("n", 2 + nargs), ("n", 1), M.Type("UInt", 8)))
    m.types.append(inner)
    m.types.append(outer)
    semgen.set_parents(inner, None)
    semgen.set_parents(outer, None)
    total = 3 + nargs

    def plan(s):
        if s.name != "Outer":
            return [(bytes([rnd.choice([0, 1, 9]), rnd.randrange(256)]), [0, 1, 2])]
        out = []
        for _ in range(6):
            b = bytes(rnd.choice([0, 0, 1, 1, 2, 7, 255]) for _ in range(total))
            out.append((b, list(range(total + 1))))
        return out

    return build_case_model(m, {"param-family", "parameters", "conditional", "nested-struct"}, rnd, 2, 3, buffer_plan=plan)


def stride_family_module(k, seed):
    """Always part of the run: fields placed after a run-time count times a stride that is not a
    power of two (start known only modulo 12, 20, 10, 6, 24, 40, ...), of widths for which the
    runtime has aligned fast paths.  Returns (module, buffer plan)."""
    rnd = random.Random(seed * 1000033 + k)
    m = M.Module("m.emb")
    m.default_byte_order = rnd.choice(["LittleEndian", "BigEndian"])
    m.namespace = "v::ns"
    st_ = M.Struct("struct", "Tab")
    st_.fields.append(M.Field("count", ("n", 0), ("n", 1), M.Type("UInt", 8)))
    # odd members of the family: strides above 64 that are not multiples of 64
    stride = rnd.choice([72, 96, 100, 80, 120, 192, 144]) if k % 2 else rnd.choice([12, 20, 10, 6, 24, 40, 3, 5, 36])
    base = rnd.choice([8, 4, 16, 2, 1])
    w = rnd.choice([8, 4, 2, 8, 4])
    start = ("op", "+", ("n", base), ("op", "*", ("r", ("count",)), ("n", stride)))
    st_.fields.append(M.Field("rows", ("n", base), ("op", "*", ("r", ("count",)), ("n", stride)), M.Type("UInt", 8, explicit=True, dims=[None])))
    tr = M.Field("trailer", start, ("n", w), M.Type(rnd.choice(["UInt", "Int"]), 8 * w))
    tr.end_max = base + 3 * stride + w
    st_.fields.append(tr)
    st_.fields.append(M.Field("twice", value=("op", "+", ("r", ("trailer",)), ("r", ("trailer",)))) if w <= 4 else M.Field("cnt2", value=("op", "+", ("r", ("count",)), ("n", 1))))
    m.types.append(st_)
    semgen.set_parents(st_, None)

    def plan(s):
        out = []
        for c in (0, 1, 2, 3):
            n = base + c * stride + w
            b = bytes([c]) + bytes(byte_pool(rnd) for _ in range(n - 1 + rnd.choice([0, 0, 3])))
            out.append((b, sorted(set([len(b), n, n - 1, 1, 0, max(0, base + c * stride)]))))
        return out

    return m, plan


def stride_family_case(k, seed):
    m, plan = stride_family_module(k, seed)
    return build_case_model(m, {"stride-family", "dynamic-offset", "dynamic-array"}, random.Random(seed * 7 + k), 0, 0, buffer_plan=plan, aligned_fn=lambda r: r.choice([0, 0, 2, 4, 8]))


def build_case(case_seed, nbase, nprefix):
    """Returns dict(text, module, script, expectations) or None if rejected."""
    if isinstance(case_seed, tuple) and case_seed[0] == "stride-family":
        return stride_family_case(case_seed[1], case_seed[2])
    if isinstance(case_seed, tuple) and case_seed[0] == "switch-family":
        return switch_family_case(case_seed[1], case_seed[2])
    if isinstance(case_seed, tuple) and case_seed[0] == "param-family":
        return param_family_case(case_seed[1], case_seed[2])
    rnd = random.Random(case_seed)
    if case_seed == "literal-array":
        rnd = random.Random(0)
        m, feats = literal_array_module()
    else:
        m, feats = semgen.layout_module(rnd)
    return build_case_model(m, feats, rnd, nbase, nprefix, aligned_fn=lambda r: r.choice([0, 0, 0, 0, "char", 2, 4, 8]))


def build_case_model(m, feats, rnd, nbase, nprefix, buffer_plan=None, aligned_fn=None):
    """buffer_plan(struct) -> list of (base bytes, [prefix lengths]) overrides the default buffers."""
    text = semgen.module_text(m)
    r = emb.compile_files({"m.emb": text})
    if not r.accepted:
        return {"rejected": True, "text": text, "why": (r.exc_sig or r.errors[0][0].message.split("\n")[0])}
    set_cpp_names(m)
    gen = D.DriverGen({"": m})
    src = gen.source("m.emb.h")
    I = RI.Interp({"": m})
    script = []
    expect = []
    for si, s in enumerate(gen.top_structs()):
        maxlen = struct_maxlen(s)
        for _ in range(2 if s.params else 1):
            pv = param_values(rnd, s)
            plan = buffer_plan(s) if buffer_plan else gen_buffers(rnd, maxlen, nbase, nprefix)
            if not buffer_plan:
                plan = plan + near_ok_buffers(rnd, I, s, dict(zip([p for p, _ in s.params], pv)), maxlen)
                plan = plan + extreme_buffers(rnd, I, s, dict(zip([p for p, _ in s.params], pv)), maxlen)
            for base, lens in plan:
                group = (si, tuple(pv), base)
                for n in lens:
                    b = base[:n]
                    al = aligned_fn(rnd) if aligned_fn else 0
                    if al == "char":
                        script.append("H %d %s %s" % (si, b.hex() or "-", " ".join(str(x) for x in pv)))
                    elif al:
                        script.append("A %d %d %s %s" % (si, al, b.hex() or "-", " ".join(str(x) for x in pv)))
                    else:
                        script.append("V %d %s %s" % (si, b.hex() or "-", " ".join(str(x) for x in pv)))
                    view = RI.StructView(I, s, dict(zip([p for p, _ in s.params], pv)), b)
                    out = []
                    RI.observe_struct(view, "v", out)
                    expect.append({"struct": s.name, "params": pv, "buf": b.hex(), "lines": out, "group": group, "len": n})
    return {"rejected": False, "text": text, "header": r.header, "driver": src, "script": "\n".join(script) + "\n", "expect": expect, "features": sorted(feats), "module": m}


def field_kind_of(module, struct_name, key):
    """Describes the field a key like v.f3.b7.Ok refers to (for bucketing)."""
    parts = re.sub(r"\[\d+\]", "", key).split(".")[1:]
    st_ = next((t for t in module.types if getattr(t, "name", None) == struct_name), None)
    desc = "struct"
    cur = st_
    for p in parts:
        name = p[4:] if p.startswith("has_") else p
        if cur is None or isinstance(cur, M.Enum):
            break
        found = None
        for f in cur.fields:
            for g in [f] + (f.anon or []):
                if g.name == name:
                    found = g
        if found is None:
            break
        if found.is_virtual:
            desc = "virtual"
            cur = None
        else:
            t = found.typ
            desc = (t.kind if t is not None else "anon-bits") + ("[]" if t is not None and t.dims else "")
            if t is not None and t.kind == "enum" and t.target is not None and t.target.signed():
                desc += "-signed"
            if found.cond is not None:
                desc += "?"
            cur = found.inline if (found.inline is not None and not isinstance(found.inline, M.Enum)) else (t.target if t is not None and t.kind in ("struct", "bits") else None)
    return desc


def compare(case, outputs, stats, quick):
    m = case["module"]
    exp = case["expect"]
    nfail = 0
    per_sig = {}
    if len(outputs) != len(exp):
        stats.fail({"kind": "driver-output-count"}, {"text": case["text"]}, "driver printed %d cases, expected %d" % (len(outputs), len(exp)))
        return
    groups = {}
    static_seen = {}

    def wd_all(want_):
        return set(i[0] for i in want_)

    for e, got in zip(exp, outputs):
        want = e["lines"]
        dyn = any(k.split(".")[-1].startswith("has_") and v != "T" for k, v, *_ in want) or any(f in case["features"] for f in ("dynamic-offset", "dynamic-array", "nested-dynamic-struct", "conditional"))
        readable = any(k.endswith(".Read") for k, v, *_ in want)
        stats.case([case["text"], e["struct"], e["params"], e["buf"]], dyn and readable, ["truncated" if e["len"] < len(e["group"][2]) else "full", "params" if e["params"] else "no-params"], sample={"struct": e["struct"], "params": e["params"], "buffer": e["buf"], "module_head": case["text"][:300], "observations": len(want)})
        if case.get("per_observation"):
            # C02/C03-style accounting: one evaluation per scalar observation
            nz = any(ch not in "0-" for ch in e["buf"])
            for item in want:
                if item[0].endswith(".Ok"):
                    stats.evaluations += 1
                    if nz:
                        stats.nontrivial.add(vlib.h([item[0], e["buf"], case["text"][:0], e["struct"], case.get("cid")]))
        wd = {}
        for item in want:
            wd[item[0]] = item
        gd = dict(got)
        # min/max size constants: whatever size a view reports lies between them, and they do not
        # depend on the buffer
        for k in [k for k in gd if k.endswith(".StaticMinSize") or k.endswith(".StaticMaxSize")]:
            v = gd.pop(k)
            base = k.rsplit(".", 1)[0]
            size = gd.get(base + ".Size")
            stats.classes["static-size-bound-observed"] += 1
            if size is not None and base + ".Size" in wd_all(want) and gd.get(base + ".Ok") == "1":
                lo_ok = int(v) <= int(size) if k.endswith("MinSize") else int(size) <= int(v)
                if not lo_ok and nfail < 12:
                    nfail += 1
                    stats.fail({"kind": "size-outside-static-bounds", "which": k.rsplit(".", 1)[1]}, {"text": case["text"], "struct": e["struct"], "params": e["params"], "buf": e["buf"]}, "%s = %s but the view (Ok) reports size %s (buffer %s, params %s)" % (k, v, size, e["buf"], e["params"]))
            const_key = (e["struct"], k)
            prev = static_seen.setdefault(const_key, v)
            if prev != v and nfail < 12 and not e["params"]:
                nfail += 1
                stats.fail({"kind": "static-size-bound-varies"}, {"text": case["text"], "struct": e["struct"], "params": e["params"], "buf": e["buf"]}, "%s is %s for this buffer and was %s for another" % (k, v, prev))
        for item in want:
            k, v = item[0], item[1]
            known_area = len(item) > 2 and item[2] == "array"
            if k not in gd:
                # lines below an array-count mismatch are secondary
                continue
            if gd[k] != v:
                suffix = k.split(".")[-1]
                suffix = "has_" if suffix.startswith("has_") else suffix
                sig = {"kind": "observation-mismatch", "obs": suffix, "field": field_kind_of(m, e["struct"], k), "truncated-array": "yes" if known_area else "no"}
                sk = vlib.h(sig)
                per_sig[sk] = per_sig.get(sk, 0) + 1
                if known_area and not case.get("per_observation"):
                    # the recorded finding (array views on truncated buffers): report it (capped), but neither
                    # let it use up the module's budget nor stop the comparison of the rest of the view
                    if per_sig[sk] <= 3:
                        stats.fail(sig, {"text": case["text"], "struct": e["struct"], "params": e["params"], "buf": e["buf"]}, "key %s: generated code reports %s, reference says %s\n(buffer %s, params %s)" % (k, gd[k], v, e["buf"], e["params"]))
                    continue
                if (nfail < 12 and not case.get("per_observation")) or (case.get("per_observation") and per_sig[sk] <= 3):
                    stats.fail(sig, {"text": case["text"], "struct": e["struct"], "params": e["params"], "buf": e["buf"]}, "key %s: generated code reports %s, reference says %s\n(buffer %s, params %s)" % (k, gd[k], v, e["buf"], e["params"]))
                nfail += 1
                if not case.get("per_observation"):
                    # later observations of the same view may merely follow from this one
                    break
                # independent scalar observations (C02-style modules): keep comparing, so that one
                # (possibly already recorded) defect does not hide another in the same view
        extra = [k for k in gd if k not in wd]
        missing = [k for k in wd if k not in gd]
        if (extra or missing) and nfail < 12:
            k0 = (extra or missing)[0]
            in_array = "[" in k0 or any(len(i) > 2 and i[2] == "array" for i in want if k0.startswith(i[0].rsplit(".", 1)[0]))
            sig = {"kind": "observation-set", "what": "extra" if extra else "missing", "obs": k0.split(".")[-1].split("_")[0], "field": field_kind_of(m, e["struct"], k0), "truncated-array": "yes" if in_array else "no"}
            stats.fail(sig, {"text": case["text"], "struct": e["struct"], "params": e["params"], "buf": e["buf"]}, "generated code %s observation %s (buffer %s)" % ("prints extra" if extra else "lacks", k0, e["buf"]))
            nfail += 1
        groups.setdefault(e["group"], []).append((e["len"], gd, wd))
    # prefix monotonicity on the C++ side alone
    for g, items in groups.items():
        items.sort(key=lambda x: x[0])
        known = {}
        for n, gd, wd in items:
            for k, v in gd.items():
                suffix = k.split(".")[-1]
                is_known = (suffix.startswith("has_") and v in "TF") or (suffix in ("Ok", "IsComplete", "SizeIsKnown") and v == "1") or suffix in ("Read", "Size")
                if k in known and known[k][1] != v and is_known:
                    arr = "[" in k or ".Count" in k or any(len(i) > 2 and i[2] == "array" for i in wd.values() if k.startswith(i[0].rsplit(".", 1)[0]))
                    if nfail < 14:
                        stats.fail({"kind": "prefix-instability", "obs": "has_" if suffix.startswith("has_") else suffix, "truncated-array": "yes" if arr else "no"}, {"text": case["text"], "struct": g[0], "params": list(g[1]), "buf": g[2][:n].hex()}, "%s was %s with %d bytes and is %s with %d bytes" % (k, known[k][1], known[k][0], v, n))
                    nfail += 1
                if is_known and k not in known:
                    known[k] = (n, v)


def run_batch(ctx, seeds, nbase, nprefix, tag, builder=None):
    """Builds all modules for `seeds`, compiles drivers in parallel, runs and compares."""
    stats = vlib.Stats()
    root = os.path.join(ctx.tmp, tag)
    cases = []
    for i, sd in enumerate(seeds):
        c = builder(sd) if builder else build_case(sd, nbase, nprefix)
        if c["rejected"]:
            stats.discards += 1
            stats.classes["rejected:" + str(c["why"])[:60]] += 1
            continue
        d = os.path.join(root, "m%d" % i)
        farm.write_files(d, {"m.emb.h": c["header"], "driver.cc": c["driver"], "m.emb": c["text"]})
        c["dir"] = d
        cases.append(c)
        for f in c["features"]:
            stats.classes["feature:" + f] += 1
    builds = farm.build_all([(c["dir"], "driver.cc", "driver", farm.GXX, []) for c in cases])
    runs = []
    for c, (d, ok, err) in zip(cases, builds):
        if not ok:
            first = next((l for l in err.split("\n") if "error" in l), err[:200])
            stats.fail({"kind": "header-does-not-compile", "msg": re.sub(r"[0-9]+", "N", first)[-120:]}, {"text": c["text"]}, err[-3000:])
            c["skip"] = True
        else:
            runs.append(c)
    results = farm.run_all([(c["dir"], "driver", c["script"]) for c in runs])
    for c, (rc, out, err) in zip(runs, results):
        if rc != 0:
            stats.fail({"kind": "driver-crashed", "rc": rc}, {"text": c["text"]}, "exit status %s\n%s" % (rc, err[-2000:]))
            continue
        compare(c, D.parse_output(out), stats, ctx.quick)
    shutil.rmtree(root, ignore_errors=True)
    return stats


def run(ctx):
    ctx.rule = RULE
    ctx.assumptions = [
        "embref encodes doc/language-reference.md + doc/cpp-reference.md (see DESIGN §2 M2); disagreements are triaged per DESIGN §3",
        "views are made from (non-null pointer, length) over exact-size heap buffers",
        "not compared: Read() when !Ok(), element views past ElementCount, multi-step $present paths, parameter values outside the declared range",
    ]
    nmod = ctx.pick(48, 640)
    rnd = random.Random(ctx.seed * 7919 + 17)
    seeds = [rnd.randrange(2**62) for _ in range(nmod)] + ["literal-array"] + [("switch-family", k, ctx.seed) for k in range(ctx.pick(4, 24))] + [("stride-family", k, ctx.seed) for k in range(ctx.pick(4, 24))] + [("param-family", k, ctx.seed) for k in range(ctx.pick(4, 24))]
    ctx.stats = run_batch(ctx, seeds, ctx.pick(4, 6), ctx.pick(14, 24), "b0")
    return ctx.finish(None)


def replay(ctx, data):
    return True
