"""C17 — compilation is a pure function of its input files."""

import hashlib
import json
import os
import pickle
import random
import re
import shutil
import subprocess
import sys
import tempfile
import time
import traceback

import hypothesis
from hypothesis import settings, strategies as st
from hypothesis.stateful import RuleBasedStateMachine, invariant, precondition, rule, run_state_machine_as_test

import vlib
from vlib import emb

PROPERTY = "C17"

RULE = (
    "cases = (source set, schedule): source sets from the corpus, their mutations (syntax errors, several independent dependency cycles, ambiguous names, "
    "several attribute errors), model-generated modules; schedules = PYTHONHASHSEED in {0,1,2,3,5,11,97,12345} x batch order (forward/reverse/shuffled) "
    "x repetition, each (seed, order) one fresh subprocess compiling the whole batch; in-process history via a Hypothesis RuleBasedStateMachine "
    "(compile / compile with swapped import-dir order / front end -> JSON -> back end); CLI sample embossc vs emboss_front_end|emboss_codegen_cpp under two seeds. "
    "Oracle: byte equality of (diagnostics text, IR JSON, header) across all schedules (anonymous-field numbering canonicalised only for in-process interleaving). "
    "Non-trivial = output has >= 2 error groups or a diagnostic with a list in it, or an accepted module with >= 2 types; distinct by source-set hash."
)

HASH_SEEDS = [0, 1, 2, 3, 5, 11, 97, 12345]

ANON = re.compile(r"(emboss_reserved_anonymous_field_|EmbossReservedAnonymousField)(\d+)")


def canon_anon(s):
    names = {}

    def ren(m):
        names.setdefault(m.group(2), str(len(names)))
        return m.group(1) + "N" + names[m.group(2)]

    return ANON.sub(ren, s) if s else s


def compile_output(files, main, two_stage=False, reset=True):
    """(diagnostics, ir_json, header) — all strings or None."""
    from compiler.util import ir_data, ir_data_utils
    from compiler.back_end.cpp import header_generator

    r = emb.compile_files(files, main, gen_header=not two_stage, reset=reset)
    if r.exc:
        return ("EXCEPTION " + json.dumps(r.exc_sig, sort_keys=True), None, None)
    diag = emb.format_errors(r, files) if r.errors else ""
    irj = None
    header = r.header
    if r.ir is not None and not r.errors:
        if two_stage:
            irj = ir_data_utils.IrDataSerializer(r.ir).to_json()
            ir2 = ir_data_utils.IrDataSerializer.from_json(ir_data.EmbossIr, irj)
            header, errs = header_generator.generate_header(ir2)
            if errs:
                from compiler.util import error as e_

                diag = e_.format_errors(errs, dict(files))
                header = None
    elif r.ir is None:
        pass
    return (diag, irj, header)


def ir_json_of(files, main, reset=True):
    from compiler.util import ir_data_utils

    r = emb.compile_files(files, main, gen_header=False, reset=reset)
    if r.ir is not None and not r.errors and not r.exc:
        return ir_data_utils.IrDataSerializer(r.ir).to_json()
    return None


# --- batch worker (fresh process per (hash seed, order)) -----------------------------

def batch_main(argv):
    inp, out, order_seed = argv[0], argv[1], int(argv[2])
    with open(inp, "rb") as f:
        sets = pickle.load(f)
    idxs = list(range(len(sets)))
    if order_seed == -1:
        idxs.reverse()
    elif order_seed > 0:
        random.Random(order_seed).shuffle(idxs)
    res = {}
    for i in idxs:
        files, main = sets[i]
        d, _, h = compile_output(files, main)
        j = ir_json_of(files, main)
        # several modules share one process here, so the numbering of reserved
        # anonymous identifiers may legitimately depend on the batch order
        res[i] = (canon_anon(d), canon_anon(j), canon_anon(h))
    with open(out, "wb") as f:
        pickle.dump(res, f)


def run_batches(ctx, sets, schedules):
    inp = os.path.join(ctx.tmp, "sets.pkl")
    with open(inp, "wb") as f:
        pickle.dump(sets, f)
    procs = []
    for k, (hs, order) in enumerate(schedules):
        out = os.path.join(ctx.tmp, "b%d.pkl" % k)
        env = dict(os.environ, PYTHONHASHSEED=str(hs))
        p = subprocess.Popen([sys.executable, "-c", "import sys; from props import c17_determinism as m; m.batch_main(sys.argv[1:])", inp, out, str(order)], env=env, cwd=vlib.VERIF, stdout=subprocess.PIPE, stderr=subprocess.STDOUT, text=True)
        procs.append((p, out, hs, order))
    results = []
    for p, out, hs, order in procs:
        o, _ = p.communicate()
        if p.returncode != 0:
            raise vlib.HarnessError("C17 batch worker failed (hashseed %s):\n%s" % (hs, (o or "")[-3000:]))
        with open(out, "rb") as f:
            results.append(((hs, order), pickle.load(f)))
    return results


# --- source sets ------------------------------------------------------------------------

MULTI_CYCLE = """struct Foo:
  a [+1]  UInt  b
  b [+1]  UInt  a
  c [+1]  UInt  d
  d [+1]  UInt  c
  e [+1]  UInt  f
  f [+1]  UInt  e
  g [+1]  UInt  h
  h [+1]  UInt  g
"""

MULTI_ERRORS = """struct Foo:
  0 [+1]  UInt  a
    [byte_order: "LittleEndian"]
    [byte_order: "BigEndian"]
  1 [+1]  UInt  b
    [requires: 3]
    [text_output: "Nope"]
  2 [+2]  UInt  c
  4 [+1]  Nope  d
  5 [+1]  Nada  e
  6 [+1]  Zip  f
enum Bar:
  AA = 1
  AA = 2
  BB = 18446744073709551616
"""

AMBIGUOUS = """import "imp.emb" as imp
struct UInt:
  0 [+1]  Int  x
struct Foo:
  struct Bar:
    0 [+1]  UInt  x
  struct Baz:
    struct Bar:
      0 [+1]  UInt  y
    0 [+1]  Bar  q
  0 [+1]  UInt  a
  1 [+1]  Bar  b
"""

ATTR_LISTS = [
    '[expected_back_ends: "cpp, java, rust, go"]\n[(proto) namespace: "x"]\nstruct Foo:\n  0 [+1]  UInt  a\n',
    '[expected_back_ends: "zz, yy, xx, ww, vv"]\n[(cpp) namespace: "x"]\n[(uu) thing: "x"]\nstruct Foo:\n  0 [+1]  UInt  a\n',
    'struct Foo:\n  0 [+2]  UInt  a\n    [byte_order: "Sideways"]\n  2 [+1]  UInt  b\n    [text_output: "Loud"]\n',
    '[(cpp) $default enum_case: "snake, kCamelCase, SHOUTY_CASE, lower"]\nenum Ee:\n  AA = 1\n',
]

SYNTAX = ["struct Foo:\n  0 [+1] UInt\n", "struct Foo:\n  0 [+1]  UInt  x y\n", "enum Foo:\n  AA = \n", "struct Foo\n  0 [+1]  UInt  x\n", "struct Foo:\n  let x = (1 +\n", "import \"a\"\n", "struct Foo:\n  0 [+1]  UInt  x\n  [requires: x ==]\n", "bits Foo:\n  0 [+1]  UInt:8[  x\n"]


def literal_sets():
    imp = {"imp.emb": "struct Bar:\n  0 [+1]  UInt  z\n"}
    out = [({"m.emb": MULTI_CYCLE}, "m.emb"), ({"m.emb": MULTI_ERRORS}, "m.emb"), (dict(imp, **{"m.emb": AMBIGUOUS}), "m.emb")]
    for s in SYNTAX + ATTR_LISTS:
        out.append(({"m.emb": s}, "m.emb"))
    # several independent 2-cycles among enum values and among virtual fields
    out.append(({"m.emb": "enum Ee:\n  AA = BB\n  BB = AA\n  CC = DD\n  DD = CC\n  FF = GG\n  GG = FF\n"}, "m.emb"))
    out.append(({"m.emb": "struct Foo:\n  let a = b\n  let b = a\n  let c = d\n  let d = c\n  let e = f\n  let f = e\n"}, "m.emb"))
    # errors in the middle operand of a chained comparison (one expression node with two parents)
    out.append(({"m.emb": "struct Foo:\n  [requires: 0 <= nope <= 10]\n  0 [+1]  UInt  x\n"}, "m.emb"))
    out.append(({"m.emb": "struct Foo:\n  [requires: 0 <= x + true <= 10]\n  0 [+1]  UInt  x\n"}, "m.emb"))
    out.append(({"m.emb": "struct Foo:\n  0 [+1]  UInt  x\n  let ok = 1 < x + nope < 9 && 2 <= Foo.y <= 3\n"}, "m.emb"))
    # an accepted module with many imports, some of them imported twice under different names, and a
    # diamond: whatever is emitted once per import is emitted in one order
    many = {"m.emb": "".join('import "%s.emb" as %s\n' % (n_, a_) for n_, a_ in [("zeta", "z"), ("alpha", "a"), ("mid", "m"), ("beta", "b"), ("alpha", "a2"), ("omega_long_name", "o")])
            + '[$default byte_order: "LittleEndian"]\n[(cpp) namespace: "many"]\nstruct Top:\n  0 [+1]  z.Zz  fz\n  1 [+1]  a.Aa  fa\n  2 [+1]  m.Mm  fm\n  3 [+1]  b.Bb  fb\n  4 [+1]  a2.Aa  faa\n  5 [+1]  o.Oo  fo\n'}
    for n_, t_ in [("zeta", "Zz"), ("alpha", "Aa"), ("beta", "Bb"), ("omega_long_name", "Oo")]:
        many[n_ + ".emb"] = '[(cpp) namespace: "many::%s"]\nstruct %s:\n  0 [+1]  UInt  v\n' % (n_, t_)
    many["mid.emb"] = 'import "alpha.emb" as al\n[(cpp) namespace: "many::mid"]\nstruct Mm:\n  0 [+1]  al.Aa  inner\n'
    out.append((many, "m.emb"))
    out.append(({"a.emb": 'import "b.emb" as b\nstruct Aa:\n  0 [+1]  UInt  x\n', "b.emb": 'import "a.emb" as a\nstruct Bb:\n  0 [+1]  UInt  x\n'}, "a.emb"))
    return out


def collide_family(rnd, n):
    """Source sets that use the same file names and the same type, field and enum names for different
    facts - sizes, values, namespaces, byte orders, conditions.  Whatever a compilation remembers under a
    name (file, type, position) and does not forget is wrong for the next member of the family, so
    the members disagree between a fresh process and a process that compiled a sibling first."""
    out = []
    for _ in range(n):
        es = rnd.choice([1, 2, 3, 4, 6, 8])
        ns = rnd.choice(["fam", "fam::a", "fam::b::c", "other", "x::fam"])
        bo = rnd.choice(["LittleEndian", "BigEndian"])
        vals = sorted(rnd.sample(range(0, 200), 3))
        cnt = rnd.choice([2, 3, 4])
        lim = rnd.choice([10, 100, 200, 250])
        w = rnd.choice([3, 4, 5])
        k = rnd.choice([1, 2, 7, 40])
        cond = rnd.choice(["tag == %d" % vals[0], "tag > %d" % k, "flag"])
        imp_es = rnd.choice([1, 2, 4])
        imp = (
            '[$default byte_order: "%s"]\n[(cpp) namespace: "%s::imp"]\n'
            "struct Elem:\n  0 [+%d]  UInt  v\n  let twice = v * %d\n"
            "enum Kind:\n  AA = %d\n  BB = %d\n" % (rnd.choice(["LittleEndian", "BigEndian"]), rnd.choice(["fam", "q"]), imp_es, k + 1, vals[1], vals[2])
        )
        main = (
            'import "imp.emb" as imp\n[$default byte_order: "%s"]\n[(cpp) namespace: "%s"]\n'
            "enum Kind:\n  AA = %d\n  BB = %d\n  CC = %d\n"
            "bits Flags:\n  0 [+%d]  UInt  lo\n  %d [+%d]  UInt  hi\n"
            "struct Elem:\n  0 [+%d]  UInt  v\n    [requires: this <= %d]\n  let twice = v * %d\n  let c = %d\n"
            "struct Holder:\n  0 [+1]  UInt  tag\n  1 [+1]  Flags  fl\n  let flag = fl.lo == %d\n"
            "  2 [+%d]  Elem[%d]  items\n  %d [+%d]  imp.Elem[2]  far\n"
            "  if %s:\n    %d [+1]  Kind  kind\n    %d [+1]  imp.Kind  ikind\n"
            "  2 [+%d]  Elem  one\n  %d [+%d]  imp.Elem  ione\n  let total = one.twice + ione.twice + Elem.c\n"
            "  %d [+1]  bits:\n    0 [+%d]  UInt  p\n    %d [+%d]  UInt  q\n"
            % (bo, ns, vals[0], vals[1], vals[2], w, w, 8 - w, es, lim, k, k * 3, k % 8,
               es * cnt, cnt, 2 + es * cnt, imp_es * 2, cond, 2 + es * cnt + imp_es * 2, 3 + es * cnt + imp_es * 2,
               es, 2 + es * cnt, imp_es,
               4 + es * cnt + imp_es * 2, w, w, 8 - w)
        )
        out.append(({"m.emb": main, "imp.emb": imp}, "m.emb"))
    return out


def generated_sets(seed, n):
    from props import c16_total
    from embgen import textmut, gsample

    try:
        from embgen import semgen
    except ImportError:
        semgen = None
    rnd = random.Random(seed)
    corpus = c16_total.corpus_sets()
    out = []
    for files, main in corpus:
        out.append((dict(files), main))
    from embgen import depgraph

    snips = emb.test_snippets()
    while len(out) < len(corpus) + n:
        k = rnd.random()
        if k < 0.2:
            t = rnd.choice(snips)
            if rnd.random() < 0.4:
                t = textmut.mutate(rnd, t, n_mut=1)
            out.append(({"m.emb": t, "imp.emb": c16_total.IMPORTED}, "m.emb"))
            continue
        if k < 0.35:
            g = depgraph.random_graph(rnd)
            kk = rnd.random()
            if kk < 0.6:
                out.append(({"m.emb": depgraph.struct_program(rnd, g)[0]}, "m.emb"))
            elif kk < 0.8:
                out.append(({"m.emb": depgraph.enum_program(rnd, g)[0]}, "m.emb"))
            else:
                out.append(depgraph.import_program(rnd, g))
            continue
        k = rnd.random()
        if semgen is not None and k < 0.35:
            out.append(semgen.c16_source(rnd)[1:])
            continue
        if k < 0.75:
            files, main = rnd.choice(corpus)
            files = dict(files)
            files[main] = textmut.mutate(rnd, files[main])
            out.append((files, main))
        else:
            terms = gsample.random_module_terms(rnd)
            out.append(({"m.emb": gsample.render(rnd, terms, noisy=False, pools=c16_total.SEM_POOLS), "imp.emb": c16_total.IMPORTED}, "m.emb"))
    return out


def nontrivial(out):
    d, j, h = out
    if d:
        groups = len(re.findall(r"(?m)^\S+: error:", d))
        return groups >= 2 or "expected" in d or "," in d
    return bool(h) and len(re.findall(r"(?m)^class Generic\w+View;", h or "")) + len(re.findall(r"(?m)^enum class ", h or "")) >= 2


# --- in-process history (stateful) --------------------------------------------------------

def make_machine(sets, stats, seed, pristine=None):
    class History(RuleBasedStateMachine):
        def __init__(self):
            super().__init__()
            self.first = {}
            self.first_raw = {}
            self.steps = 0

        def _observe(self, i, how, out):
            self.steps += 1
            key = (i, how in ("two-stage",))
            # (a) the same compilation repeated in one process - whatever was compiled in between, the
            # compiler's own caches and counters left alone - is byte-identical, reserved names included
            raw = (out[0], out[2])
            prev_raw = self.first_raw.setdefault((i, how), raw)
            if prev_raw != raw:
                which = "diagnostics" if prev_raw[0] != raw[0] else "header"
                d = _first_diff(prev_raw[0] or prev_raw[1] or "", raw[0] or raw[1] or "")
                stats.fail({"kind": "repetition-dependence", "what": which, "how": how}, {"files": sets[i][0], "main": sets[i][1], "how": how, "step": self.steps}, "byte output of source set %d differs from its first compilation in this process after %d steps (%s)\nfirst: %r\nnow:   %r" % (i, self.steps, how, d[0], d[1]))
            # (b) across routes only the numbering of reserved anonymous names may differ
            out = tuple(canon_anon(x) if isinstance(x, str) else x for x in out)
            # diagnostics and header must be identical however they were produced
            cmp_out = (out[0], out[2])
            prev = self.first.setdefault(i, cmp_out)
            # (c) ... and identical to what a process that compiled nothing else produces
            if pristine is not None and pristine[i] != cmp_out and (i, "pristine") not in self.first:
                self.first[(i, "pristine")] = True
                which = "diagnostics" if pristine[i][0] != cmp_out[0] else "header"
                d = _first_diff(pristine[i][0] or pristine[i][1] or "", cmp_out[0] or cmp_out[1] or "")
                stats.fail({"kind": "history-dependence", "what": which, "how": "earlier-compilations-vs-fresh-process"}, {"files": sets[i][0], "main": sets[i][1], "how": how, "step": self.steps}, "output of source set %d after %d other compilations in this process differs from its output in a process that compiled nothing else (%s)\nfresh: %r\nnow:   %r" % (i, self.steps, how, d[0], d[1]))
            stats.case(["hist", i, how, self.steps, seed], self.steps >= 3, ["history:" + how], sample=None)
            if prev != cmp_out:
                which = "diagnostics" if prev[0] != cmp_out[0] else "header"
                stats.fail({"kind": "history-dependence", "what": which, "how": how}, {"files": sets[i][0], "main": sets[i][1], "how": how, "step": self.steps}, "output of source set %d changed within one process after %d steps (%s)\nfirst: %r\nnow:   %r" % (i, self.steps, how, _first_diff(prev[0] or prev[1] or "", cmp_out[0] or cmp_out[1] or "")[0], _first_diff(prev[0] or prev[1] or "", cmp_out[0] or cmp_out[1] or "")[1]))

        @rule(i=st.integers(0, len(sets) - 1))
        def compile(self, i):
            self._observe(i, "compile", compile_output(*sets[i], reset=False))

        @rule(i=st.integers(0, len(sets) - 1))
        def compile_reversed_file_order(self, i):
            files, main = sets[i]
            rev = dict(reversed(list(files.items())))
            self._observe(i, "reversed-file-dict", compile_output(rev, main, reset=False))

        @rule(i=st.integers(0, len(sets) - 1))
        def two_stage(self, i):
            self._observe(i, "two-stage", compile_output(sets[i][0], sets[i][1], two_stage=True, reset=False))

        @rule(i=st.integers(0, len(sets) - 1))
        def front_end_only_then_nothing(self, i):
            ir_json_of(*sets[i], reset=False)

    return History


def _first_diff(a, b):
    la, lb = a.split("\n"), b.split("\n")
    for i in range(max(len(la), len(lb))):
        x = la[i] if i < len(la) else None
        y = lb[i] if i < len(lb) else None
        if x != y:
            return (x, y)
    return (None, None)


ABA_X = """[$default byte_order: "LittleEndian"]
struct Foo:
  0 [+1]  bits:
    0 [+4]  UInt  lo
    4 [+4]  UInt  hi
  1 [+2]  bits:
    0 [+9]  UInt  wide
  3 [+1]  UInt  tail
"""
ABA_Y = """[$default byte_order: "LittleEndian"]
struct Foo:
  0 [+1]  bits:
    0 [+8]  UInt  all
  1 [+1]  UInt  other
"""


def aba_history(stats, sets):
    """Literal history that is part of every run: compile X, compile a different text under the same
    file name, compile X again - with the compiler's caches left alone.  The three outputs of X
    (first, again, and after something else used its file name) must be byte-identical."""
    candidates = [({"m.emb": ABA_X}, "m.emb")] + [s_ for s_ in sets if re.search(r"(?m)^\s+\S.*\bbits:\s*$", s_[0][s_[1]])][:3]
    other = ({"m.emb": ABA_Y}, "m.emb")
    for files, main in candidates:
        first = compile_output(files, main, reset=False)
        compile_output({main: ABA_Y} if main != "m.emb" else other[0], main, reset=False)
        again = compile_output(files, main, reset=False)
        stats.case(["aba", files, main], True, ["history:A-B-A"], sample=None)
        if (first[0], first[2]) != (again[0], again[2]):
            which = "diagnostics" if first[0] != again[0] else "header"
            d = _first_diff(first[0] or first[2] or "", again[0] or again[2] or "")
            stats.fail({"kind": "repetition-dependence", "what": which, "how": "A-B-A"}, {"files": files, "main": main, "how": "A-B-A"}, "compiling the same source again, after another text was compiled under the same file name, changed the %s\nfirst: %r\nagain: %r" % (which, d[0], d[1]))


def pristine_outputs(sub):
    """Output of each source set from a process that has compiled nothing else: a child forked off
    before this process's first compilation, one per set."""
    out = []
    for files, main in sub:
        r, w = os.pipe()
        pid = os.fork()
        if pid == 0:
            try:
                os.close(r)
                o = compile_output(files, main, reset=False)
                with os.fdopen(w, "wb") as f:
                    pickle.dump((o[0], o[2]), f)
            finally:
                os._exit(0)
        os.close(w)
        with os.fdopen(r, "rb") as f:
            data = f.read()
        os.waitpid(pid, 0)
        if not data:
            raise vlib.HarnessError("pristine compilation child died")
        out.append(tuple(canon_anon(x) if isinstance(x, str) else x for x in pickle.loads(data)))
    return out


def history_shard(idx, seed, sets, n_examples, steps, family=()):
    stats = vlib.Stats()
    if idx == 0:
        try:
            aba_history(stats, sets)
        except Exception:
            stats.fail(dict(kind="history-machine-exception", **emb.exc_signature()), {}, traceback.format_exc())
    rnd = random.Random(seed * 7 + idx)
    fam = list(family)
    rest = [i for i in range(len(sets)) if i not in set(fam)]
    picks = rnd.sample(fam, min(len(fam), 4)) + rnd.sample(rest, min(len(rest), 7))
    sub = [sets[i] for i in sorted(picks)]
    pristine = pristine_outputs(sub)
    M = make_machine(sub, stats, idx, pristine)
    try:
        run_state_machine_as_test(
            hypothesis.seed(seed * 1049 + idx)(M),
            settings=settings(max_examples=n_examples, stateful_step_count=steps, deadline=None, database=None, report_multiple_bugs=False, suppress_health_check=list(hypothesis.HealthCheck), phases=[hypothesis.Phase.generate]),
        )
    except Exception:
        stats.fail(dict(kind="history-machine-exception", **emb.exc_signature()), {}, traceback.format_exc())
    return stats


# --- CLI ------------------------------------------------------------------------------------

def cli_outputs(files, main, hashseed):
    d = tempfile.mkdtemp(prefix="verif_c17_")
    try:
        d1, d2 = os.path.join(d, "i1"), os.path.join(d, "i2")
        for base in (d1, d2):  # identical files listed by two import dirs
            for name, text in files.items():
                p = os.path.join(base, name)
                os.makedirs(os.path.dirname(p), exist_ok=True)
                with open(p, "w", encoding="utf-8", newline="") as f:  # CR LF in a text stays CR LF on disk
                    f.write(text)
        env = dict(os.environ, PYTHONPATH=emb.REPO, PYTHONHASHSEED=str(hashseed))
        py = sys.executable
        outs = []
        for dirs in ((d1, d2), (d2, d1), (d1,)):
            args = []
            for x in dirs:
                args += ["--import-dir", x]
            c = subprocess.run([py, os.path.join(emb.REPO, "embossc")] + args + ["--output-path", d, "--output-file", "one.h", main], cwd=d, env=env, capture_output=True, text=True, timeout=600)
            h = open(os.path.join(d, "one.h")).read() if c.returncode == 0 and os.path.exists(os.path.join(d, "one.h")) else None
            outs.append((c.returncode, c.stderr.replace(d1, "<I>").replace(d2, "<I>").replace("<I>:<I>", "<I>"), h))
            if os.path.exists(os.path.join(d, "one.h")):
                os.remove(os.path.join(d, "one.h"))
        a = subprocess.run([py, "-m", "compiler.front_end.emboss_front_end", "--import-dir", d1, "--output-file", os.path.join(d, "ir.json"), main], cwd=d, env=env, capture_output=True, text=True, timeout=600)
        irj = open(os.path.join(d, "ir.json")).read() if a.returncode == 0 else None
        h2 = None
        back = None
        if a.returncode == 0:
            b = subprocess.run([py, "-m", "compiler.back_end.cpp.emboss_codegen_cpp", "--input-file", os.path.join(d, "ir.json"), "--output-file", os.path.join(d, "two.h")], cwd=d, env=env, capture_output=True, text=True, timeout=600)
            h2 = open(os.path.join(d, "two.h")).read() if b.returncode == 0 else None
            back = (b.returncode, b.stderr.replace(d1, "<I>"))
        return {"embossc": outs[0], "embossc_swapped_dirs": outs[1], "embossc_single_dir": outs[2], "two_program": (a.returncode, a.stderr.replace(d1, "<I>"), h2), "two_program_back_end": back, "ir_json": irj}
    finally:
        shutil.rmtree(d, ignore_errors=True)


# accepted by the front end, rejected by the C++ back end, with the offending attribute in the main or in
# an imported file (the back end verifies the attributes of every module it is given)
BACK_END_REJECTED = [
    ({"m.emb": 'import "lib.emb" as lib\n[$default byte_order: "LittleEndian"]\n[(cpp) namespace: "okay::ns"]\nstruct Foo:\n  0 [+1]  lib.Kind  k\n', "lib.emb": '# a library\n\n[(cpp) namespace: "demo::switch::kinds"]\nenum Kind:\n  AA = 1\n'}, "m.emb"),
    ({"m.emb": 'import "lib.emb" as lib\n[$default byte_order: "LittleEndian"]\nstruct Foo:\n  0 [+1]  lib.Kind  k\n', "lib.emb": '[(cpp) $default enum_case: "SHOUTY_CASE, , kCamelCase"]\nenum Kind:\n  AA = 1\n'}, "m.emb"),
    ({"m.emb": '[$default byte_order: "LittleEndian"]\n[(cpp) namespace: "a::class::b"]\nstruct Foo:\n  0 [+1]  UInt  k\n'}, "m.emb"),
]


# identical files behind two import dirs, whose size in bytes is not their length in characters
ENCODING_SETS = [
    ({"m.emb": '-- d\u00e9lai en \u00b5s\nimport "i.emb" as i\n[$default byte_order: "LittleEndian"]\nstruct Foo:\n  -- \u00b5s \u2713\n  0 [+1]  UInt  x\n  1 [+1]  i.Bar  y\n', "i.emb": "struct Bar:\r\n  0 [+1]  UInt  z\r\n"}, "m.emb"),
    ({"m.emb": 'import "i.emb" as i\r\n[$default byte_order: "LittleEndian"]\r\nstruct Foo:\r\n  0 [+1]  UInt  x\r\n  1 [+1]  i.Bar  y\r\n  2 [+1]  Nope  w\r\n', "i.emb": "-- \u00b5\nstruct Bar:\n  0 [+1]  UInt  z\n"}, "m.emb"),
]


def outdir_history(args):
    """Fresh embossc processes writing into ONE output directory: compile set A, change only an imported
    file (set B), compile again - the result must be what a compile of B into an empty directory gives."""
    files_a, files_b, main, hs = args
    d = tempfile.mkdtemp(prefix="verif_c17o_")
    try:
        src, out1, out2 = os.path.join(d, "src"), os.path.join(d, "out"), os.path.join(d, "fresh")
        env = dict(os.environ, PYTHONPATH=emb.REPO, PYTHONHASHSEED=str(hs))
        py = sys.executable

        def write(files):
            for name, text in files.items():
                p = os.path.join(src, name)
                os.makedirs(os.path.dirname(p), exist_ok=True)
                with open(p, "w") as f:
                    f.write(text)

        def compile_to(out):
            os.makedirs(out, exist_ok=True)
            c = subprocess.run([py, os.path.join(emb.REPO, "embossc"), "--import-dir", src, "--output-path", out, main], cwd=d, env=env, capture_output=True, text=True, timeout=600)
            hp = os.path.join(out, main + ".h")
            return (c.returncode, c.stderr, open(hp).read() if os.path.exists(hp) else None)

        write(files_a)
        first = compile_to(out1)
        time.sleep(1.1)  # so that file times differ even on a coarse clock
        write({k: v for k, v in files_b.items() if files_a.get(k) != v})
        again = compile_to(out1)
        fresh = compile_to(out2)
        return {"first": first, "again": again, "fresh": fresh}
    except Exception:
        return {"error": traceback.format_exc()}
    finally:
        shutil.rmtree(d, ignore_errors=True)


OUTDIR_HISTORIES = [
    (
        {"main.emb": 'import "dep.emb" as dep\n[$default byte_order: "LittleEndian"]\nstruct Main:\n  0 [+dep.Header.$size_in_bytes]  dep.Header  h\n  let hs = dep.Header.$size_in_bytes\n', "dep.emb": '[$default byte_order: "LittleEndian"]\nstruct Header:\n  0 [+4]  UInt  a\n'},
        {"main.emb": 'import "dep.emb" as dep\n[$default byte_order: "LittleEndian"]\nstruct Main:\n  0 [+dep.Header.$size_in_bytes]  dep.Header  h\n  let hs = dep.Header.$size_in_bytes\n', "dep.emb": '[$default byte_order: "LittleEndian"]\nstruct Header:\n  0 [+4]  UInt  a\n  4 [+2]  UInt  b\n'},
        "main.emb",
    ),
    (
        {"main.emb": 'import "dep.emb" as dep\n[$default byte_order: "LittleEndian"]\nstruct Main:\n  0 [+1]  dep.Kind  k\n  if k == dep.Kind.BB:\n    1 [+1]  UInt  x\n', "dep.emb": 'enum Kind:\n  AA = 1\n  BB = 2\n'},
        {"main.emb": 'import "dep.emb" as dep\n[$default byte_order: "LittleEndian"]\nstruct Main:\n  0 [+1]  dep.Kind  k\n  if k == dep.Kind.BB:\n    1 [+1]  UInt  x\n', "dep.emb": 'enum Kind:\n  AA = 1\n  BB = 7\n'},
        "main.emb",
    ),
]


def _cli_job(args):
    files, main, hs = args
    try:
        return cli_outputs(files, main, hs)
    except Exception:
        return {"error": traceback.format_exc()}


def run(ctx):
    ctx.rule = RULE
    ctx.assumptions = [
        "byte equality of formatted diagnostics (error.format_errors with sources), IR JSON (IrDataSerializer.to_json) and header text",
        "there are no threads in the compiler; schedules are hash seeds, batch orders, repetition and process boundaries",
    ]
    stats = vlib.Stats()
    family = collide_family(random.Random(ctx.seed * 31 + 5), ctx.pick(8, 40))
    sets = literal_sets() + family + generated_sets(ctx.seed, ctx.pick(60, 600))
    nseeds = ctx.pick(6, 8)
    schedules = []
    for k, hs in enumerate(HASH_SEEDS[:nseeds]):
        schedules.append((hs, 0 if k % 3 == 0 else (-1 if k % 3 == 1 else ctx.seed + k)))
    schedules.append((HASH_SEEDS[0], -1))  # same seed, other order
    schedules.append((HASH_SEEDS[0], 0))  # plain repetition in a fresh process
    results = run_batches(ctx, sets, schedules)
    ref_sched, ref = results[0]
    for i, (files, main) in enumerate(sets):
        base = ref[i]
        klass = "literal" if i < len(literal_sets()) else "generated"
        outcome = "exception" if (base[0] or "").startswith("EXCEPTION") else ("rejected" if base[0] else "accepted")
        stats.case([files, main], nontrivial(base), [klass, outcome], sample={"main": main, "source_head": files[main][:200], "outcome": outcome, "diagnostics_head": (base[0] or "")[:200]})
        stats.evaluations += len(results) - 1
        for sched, res in results[1:]:
            if res[i] != base:
                which = ["diagnostics", "ir_json", "header"][[a != b for a, b in zip(res[i], base)].index(True)]
                x, y = _first_diff(base[["diagnostics", "ir_json", "header"].index(which)] or "", res[i][["diagnostics", "ir_json", "header"].index(which)] or "")
                kind = "order-of-messages" if which == "diagnostics" and sorted((base[0] or "").split("\n")) == sorted((res[i][0] or "").split("\n")) else "content"
                stats.fail({"kind": "schedule-dependence", "what": which, "how": kind}, {"files": files, "main": main, "schedules": [list(ref_sched), list(sched)]}, "%s differs between (hashseed, order)=%s and %s\nfirst differing line:\n  %r\n  %r" % (which, ref_sched, sched, x, y))
                break
    # in-process histories
    fam_idx = list(range(len(literal_sets()), len(literal_sets()) + len(family)))
    hist = vlib.run_shards(history_shard, 8, seed=ctx.seed, sets=sets, n_examples=ctx.pick(4, 30), steps=ctx.pick(12, 30), family=fam_idx)
    stats.merge(hist)
    # CLI sample
    import multiprocessing as mp

    rnd = random.Random(ctx.seed)
    cli_sets = [sets[0], sets[1]] + ENCODING_SETS + [({"m.emb": 'import "nope.emb" as n\nstruct Foo:\n  0 [+1]  UInt  x\n'}, "m.emb")] + BACK_END_REJECTED + [sets[i] for i in rnd.sample(range(len(sets)), ctx.pick(2, 10))]
    jobs = [(f, m, hs) for (f, m) in cli_sets for hs in (0, 3)]
    with mp.get_context("fork").Pool(min(16, len(jobs))) as pool:
        outs = pool.map(_cli_job, jobs)
    for k in range(0, len(jobs), 2):
        a, b = outs[k], outs[k + 1]
        files, main, _ = jobs[k]
        stats.case(["cli", files, main], True, ["cli"], sample=None)
        if "error" in a or "error" in b:
            raise vlib.HarnessError(a.get("error") or b.get("error"))
        if a != b:
            key = [x for x in a if a[x] != b[x]][0]
            stats.fail({"kind": "cli-hashseed-dependence", "what": key}, {"files": files, "main": main}, "CLI output %s differs between PYTHONHASHSEED 0 and 3:\n%r\n%r" % (key, str(a[key])[:600], str(b[key])[:600]))
        for o in (a, b):
            if o["embossc"] != o["embossc_swapped_dirs"]:
                stats.fail({"kind": "cli-import-dir-order"}, {"files": files, "main": main}, "embossc output depends on the order of import dirs holding identical files")
            def once(t):
                # a file that is found nowhere is reported with one note per directory tried: the number
                # of those notes follows the number of directories, whatever they contain
                if not isinstance(t, str) or "Unable to read file." not in t:
                    return t
                out_ = []
                for ln_ in t.split("\n"):
                    if not (out_ and out_[-1] == ln_ and "No such file or directory" in ln_):
                        out_.append(ln_)
                return "\n".join(out_)

            if tuple(once(x_) for x_ in o["embossc"]) != tuple(once(x_) for x_ in o["embossc_single_dir"]):
                k_ = [i_ for i_ in range(3) if o["embossc"][i_] != o["embossc_single_dir"][i_]][0]
                x, y = _first_diff(str(o["embossc_single_dir"][k_]), str(o["embossc"][k_]))
                stats.fail({"kind": "cli-import-dir-multiplicity", "what": ["exit-status", "diagnostics", "header"][k_]}, {"files": files, "main": main}, "embossc output differs between one import dir and two import dirs listing identical files\none dir:  %r\ntwo dirs: %r" % (x, y))
            if o["embossc"][0] == 0 and (o["two_program"][2] != o["embossc"][2]):
                stats.fail({"kind": "cli-one-vs-two-process"}, {"files": files, "main": main}, "header from embossc differs from emboss_front_end | emboss_codegen_cpp")
            # a source set that only the back end rejects: both routes print the same diagnostics
            if o["embossc"][0] != 0 and o["two_program"][0] == 0 and o.get("two_program_back_end") is not None:
                stats.classes["cli-back-end-rejection"] += 1
                if o["two_program_back_end"][1].strip() != o["embossc"][1].strip():
                    x, y = _first_diff(o["embossc"][1], o["two_program_back_end"][1])
                    stats.fail({"kind": "cli-one-vs-two-process", "what": "diagnostics"}, {"files": files, "main": main}, "diagnostics of embossc and of emboss_front_end | emboss_codegen_cpp differ\nembossc:      %r\ntwo programs: %r" % (x, y))
    # histories of fresh processes sharing an output directory
    with mp.get_context("fork").Pool(len(OUTDIR_HISTORIES)) as pool:
        hs_out = pool.map(outdir_history, [(a_, b_, m_, 0) for (a_, b_, m_) in OUTDIR_HISTORIES])
    for (fa, fb, m_), o in zip(OUTDIR_HISTORIES, hs_out):
        if "error" in o:
            raise vlib.HarnessError(o["error"])
        stats.case(["outdir", fa, fb], True, ["cli-output-directory-reuse"], sample=None)
        if (o["again"][0], o["again"][2]) != (o["fresh"][0], o["fresh"][2]):
            x, y = _first_diff(o["fresh"][2] or "", o["again"][2] or "")
            stats.fail({"kind": "output-depends-on-earlier-compilation"}, {"files": fb, "main": m_, "files_before": fa}, "after an imported file changed, embossc into the previously used output directory gives a different header than into an empty one\nfresh: %r\nagain: %r" % (x, y))
    ctx.stats = stats
    ctx.coverage_extra["schedules"] = [list(s) for s in schedules]
    return ctx.finish(None)


def replay(ctx, data):
    c = data["case"]
    if "files" not in c:
        return True
    sets = [(c["files"], c["main"])]
    schedules = [(hs, 0) for hs in HASH_SEEDS]
    results = run_batches(ctx, sets, schedules)
    base = results[0][1][0]
    bad = [s for s, r in results[1:] if r[0] != base]
    if bad:
        print("still failing: output differs under schedules", bad)
    return not bad
